"""Correspondence layer J + the C17 oracles: classes using OvldMC / OvldBase.

Real classes are built from generated class bodies (same-named definitions, @extend_super, several bases, plain
mixin classes without the metaclass).  Compared with the Lean model `Model/ClassBody.lean` (the class dict's
behaviour as operations on the graph of overloaded functions, then `Model/Graph.lean`): what every class holds
under the name (nothing / a plain function / an overloaded function, still flagged or not) and the outcome + trace
of every call on an instance of every class.

Oracles on the real code alone:
* isolation — the classes are defined one at a time and after each definition every call on every earlier class is
  repeated: base classes and siblings must keep exactly their previous behaviour;
* documented method set — every call is compared with a brand-new overloaded function carrying the documented
  effective method set of that class (own definitions; with @extend_super the inherited methods of all bases plus
  its own; otherwise ordinary attribute inheritance; `__prepare__` merges the overloads of several bases when a
  later base's method is marked extend_super);
* self — every entered body received the instance the method was called on."""

import json
import linecache
import random
import sys

from common import run_driver, use_repo
from corr_c17 import gen_scenario
from corr_d import RANK, RankedSet
from fnlevel import DEPTH_LIMIT, DepthExceeded, kind_of_exc

use_repo()
_uid = [0]


class ClassWorld:
    def __init__(self, w, sc):
        self.w, self.sc = w, sc
        self.log = []
        self.depth = [0]
        self.vals = []
        self.vid_of = {}
        self.selfs = []
        for a in sc["args"]:
            v = object.__new__(w.classes[a["c"]])
            self.vals.append(v)
            self.vid_of[id(v)] = a["vid"]

    def env(self):
        from ovld import OvldBase, OvldMC, call_next, extend_super, recurse

        log, depth, vid_of, selfs = self.log, self.depth, self.vid_of, self.selfs

        def ENTER(mid, s, x):
            log.append([mid, [vid_of.get(id(x), -2)], []])
            selfs.append(s)

        def DOWN():
            if depth[0] + 1 >= DEPTH_LIMIT:
                raise DepthExceeded()
            depth[0] += 1

        def UP():
            depth[0] -= 1

        glb = {"__name__": "verif_c17", "ENTER": ENTER, "DOWN": DOWN, "UP": UP, "OvldBase": OvldBase, "OvldMC": OvldMC,
               "extend_super": extend_super, "recurse": recurse, "call_next": call_next}
        for i, v in enumerate(self.vals):
            glb[f"C{i}"] = v
        for d in self.sc["defs"]:
            glb[f"T_{d['id']}"] = self.w.ty(d["params"][0]["ty"])
        return glb

    def def_lines(self, di, indent, name="f"):
        d = self.sc["defs"][di]
        pad = " " * indent
        lines = [f"{pad}def {name}(self, n0: T_{di}):", f"{pad}    ENTER({di}, self, n0)"]
        b = d["body"]
        if b[0] == "ret":
            lines.append(f"{pad}    return ('ret', {di})")
        else:
            arg = "n0" if b[1][0][0] == "p" else f"C{b[1][0][1]}"
            call = "call_next" if b[0] == "callNext" else "recurse"
            lines += [f"{pad}    DOWN()", f"{pad}    try:", f"{pad}        return {call}({arg})", f"{pad}    finally:", f"{pad}        UP()"]
        return lines

    def class_src(self, i):
        sc = self.sc
        k = sc["classes"][i]
        bases = [f"K{b}" for b in k["bases"]]
        has_mc = any(not sc["classes"][b]["mixin"] for b in k["bases"])
        if k["mixin"]:
            hdr = f"class K{i}:"
        elif not bases:
            hdr = f"class K{i}(OvldBase):"
        elif has_mc:
            hdr = f"class K{i}({', '.join(bases)}):"
        else:
            hdr = f"class K{i}({', '.join(bases)}, metaclass=OvldMC):"
        lines = [hdr]
        if not k["defs"]:
            lines.append("    pass")
        for j, di in enumerate(k["defs"]):
            if (j == 0 and k["extend"]) or j in k.get("extend_later", []):  # a marker on a later same-named definition changes nothing
                lines.append("    @extend_super")
            lines += self.def_lines(di, 4)
        return "\n".join(lines) + "\n"

    def exec_src(self, src, glb):
        _uid[0] += 1
        fname = f"<verif-c17-{_uid[0]}>"
        linecache.cache[fname] = (len(src), None, src.splitlines(True), fname)
        exec(compile(src, fname, "exec"), glb)

    def call(self, K, insts, ci, ai):
        del self.log[:]
        del self.selfs[:]
        self.depth[0] = 0
        try:
            inst = insts.setdefault(ci, K())
            f = getattr(inst, "f", None)
            if f is None:
                return {"o": ["noattr"], "t": [], "self_ok": True}
            r = f(self.vals[ai])
            o = ["ran", r[1]] if isinstance(r, tuple) and r and r[0] == "ret" else ["returned", repr(r)[:60]]
            return {"o": o, "t": [list(e) for e in self.log], "self_ok": all(s is inst for s in self.selfs)}
        except Exception as e:  # noqa
            return {"o": kind_of_exc(e), "t": [list(e2) for e2 in self.log], "msg": str(e)[:100], "self_ok": all(s is inst for s in self.selfs)}

    def run(self, incremental=False):
        """all classes, then the calls (correspondence) — or class by class with every earlier class probed after
        every definition (isolation)"""
        import ovld.typemap as tmod

        tmod.set = RankedSet
        RANK["fn"] = lambda x: (0, 0)
        sc = self.sc
        try:
            glb = self.env()
            Ks, insts = [], {}
            snapshots = []
            for i in range(len(sc["classes"])):
                try:
                    self.exec_src(self.class_src(i), glb)
                except Exception as e:  # noqa
                    return {"build_error": f"class {i}: {type(e).__name__}: {e}"[:300], "calls": [], "snapshots": snapshots, "Ks": Ks}
                Ks.append(glb[f"K{i}"])
                if incremental:
                    snap = {}
                    for ci in range(len(Ks)):
                        for ai in range(len(self.vals)):
                            r = self.call(Ks[ci], insts, ci, ai)
                            snap[(ci, ai)] = (r["o"], r["t"])
                    snapshots.append(snap)
            out = [self.call(Ks[ci], insts, ci, ai) for ci, ai in sc["calls"]] if not incremental else []
            return {"calls": out, "Ks": Ks, "snapshots": snapshots}
        finally:
            RANK["fn"] = None

    # ---- the documented effective method set, computed from the declarations and the real MRO only
    def effective(self, Ks):
        sc = self.sc
        K = sc["classes"]
        eff, flagged, kind = [], [], []
        for i, k in enumerate(K):
            own = list(k["defs"])
            if k["mixin"] and own:
                own = own[-1:]
            inh = [(b, eff[b]) for b in k["bases"] if eff[b] is not None]
            ov = [b for b in k["bases"] if kind[b] == "ovld"]
            merge = (not k["mixin"]) and any(flagged[b] for b in ov[1:])
            if merge:
                # __prepare__: the first base holding an overloaded method, the later flagged ones, the plain functions
                base = list(eff[ov[0]])
                for b in ov[1:]:
                    if flagged[b]:
                        base = overlay(sc, base, eff[b])
                plains = [b for b in k["bases"] if kind[b] == "plain"]
                # ... then the plain functions of the bases, then the body's own definitions on top
                for b in plains:
                    base = overlay(sc, base, eff[b])
                base = overlay(sc, base, own)
                eff.append(base); flagged.append(False); kind.append("ovld")
            elif own and k["extend"] and not k["mixin"]:
                base = []
                for b, e in inh:
                    base = overlay(sc, base, e)
                base = overlay(sc, base, own[:1])
                base = overlay(sc, base, own[1:])
                eff.append(base); flagged.append(not inh); kind.append("ovld")
            elif own:
                eff.append(own); flagged.append(False); kind.append("plain" if len(own) == 1 else "ovld")
            else:
                src = None
                for c in Ks[i].__mro__[1:]:
                    if c in Ks and "f" in c.__dict__:
                        src = Ks.index(c)
                        break
                eff.append(eff[src] if src is not None else None)
                flagged.append(flagged[src] if src is not None else False)
                kind.append(kind[src] if src is not None else "none")
        return eff, kind

    def fresh_reference(self, defs_ids, plain=False):
        """a brand-new overloaded function over the given definitions (methods taking self); a single undecorated
        definition is an ordinary Python method"""
        from ovld import Ovld

        glb = self.env()
        if plain:
            di = defs_ids[0]
            self.exec_src("\n".join(self.def_lines(di, 0, name=f"d{di}")) + "\n", glb)
            return glb[f"d{di}"]
        ov = Ovld()
        for di in defs_ids:
            self.exec_src("\n".join(self.def_lines(di, 0, name=f"d{di}")) + "\n", glb)
            ov.register(glb[f"d{di}"])
        return ov

    def ref_call(self, ov, inst, ai):
        del self.log[:]
        self.depth[0] = 0
        try:
            r = ov(inst, self.vals[ai])
            o = ["ran", r[1]] if isinstance(r, tuple) and r and r[0] == "ret" else ["returned", repr(r)[:60]]
            return {"o": o, "t": [list(e) for e in self.log]}
        except Exception as e:  # noqa
            return {"o": kind_of_exc(e), "t": [list(e2) for e2 in self.log]}


def sig_of(sc, di):
    return json.dumps(sc["defs"][di]["params"][0]["ty"])


def overlay(sc, base, add):
    out = list(base)
    for d in add:
        s = sig_of(sc, d)
        hit = [i for i, o in enumerate(out) if sig_of(sc, o) == s]
        if hit:
            out[hit[0]] = d
        else:
            out.append(d)
    return out


def to_model(w, sc, Ks):
    t = lambda c: ["cls", c]  # noqa
    defs = [{**d, "params": [{**p, "ty": w.tyj(p["ty"])} for p in d["params"]]} for d in sc["defs"]]
    classes = []
    for i, k in enumerate(sc["classes"]):
        mro = [Ks.index(c) for c in Ks[i].__mro__[1:] if c in Ks]
        classes.append({"bases": k["bases"], "mixin": k["mixin"], "defs": k["defs"], "extend": k["extend"], "mro": mro})
    return {"layer": "J", "hier": w.tables(), "tyrank": [], "hrank": [], "defs": defs,
            "args": [{"vid": a["vid"], "cls": t(a["c"]), "subtler": t(a["c"])} for a in sc["args"]],
            "classes": classes, "calls": sc["calls"]}


def real_attr(K):
    from ovld.core import is_ovld

    f = getattr(K, "f", None)
    if f is None:
        return ["none"]
    if is_ovld(f):
        return ["node", bool(getattr(f, "_extend_super", False))]
    return ["plain"]


def evaluate(seed, n):
    rng = random.Random(seed)
    out = {"ops": 0, "corr": [], "hist": {}, "samples": [], "oracles": {}}

    def orc(name):
        return out["oracles"].setdefault(name, {"n": 0, "nontrivial": 0, "viol": [], "known": {}})

    def bump(k, v=1):
        out["hist"][k] = out["hist"].get(k, 0) + v

    batch, meta = [], []
    for _ in range(n):
        w, sc = gen_scenario(rng)
        # every class is called with every argument kind at least now and then
        cw = ClassWorld(w, sc)
        im = cw.run()
        desc = {"world": w.desc, "scenario": sc}
        if "build_error" in im:
            # every generated body holds documented constructs only (same-named definitions, @extend_super on any of
            # them, several bases, mixin classes): a class statement that raises is a failure, not a skipped case
            bump("class definition refused: " + im["build_error"].split(":")[1].strip()[:30])
            orc("C17")["viol"].append({"law": "a class body of same-named definitions and @extend_super markers cannot be defined", "error": im["build_error"], "scenario": desc})
            continue
        Ks = im["Ks"]
        batch.append(to_model(w, sc, Ks))
        meta.append((w, sc, cw, im, desc))
        o17 = orc("C17")
        # ---- isolation
        cw2 = ClassWorld(w, sc)
        inc = cw2.run(incremental=True)
        snaps = inc["snapshots"]
        for later in range(1, len(snaps)):
            for key, val in snaps[later - 1].items():
                o17["n"] += 1
                if val[0][0] == "ran":
                    o17["nontrivial"] += 1
                if snaps[later][key] != val:
                    o17["viol"].append({"law": "defining a later class changed the behaviour of an earlier class", "class": key[0], "arg": key[1], "before": val, "after": snaps[later][key], "defined": later, "scenario": desc})
                    break
        if "build_error" in inc:
            o17["viol"].append({"law": "a class that can be defined when its bases are unused cannot be defined once they have been called", "error": inc["build_error"], "scenario": desc})
        # ---- documented method set + self
        eff, kind = cw.effective(Ks)
        refs = {}
        for (ci, ai), b in zip(sc["calls"], im["calls"]):
            out["ops"] += 1
            bump("attribute:" + kind[ci])
            o17["n"] += 1
            if not b["self_ok"]:
                o17["viol"].append({"law": "a body was entered with another object than the instance as self", "class": ci, "arg": ai, "scenario": desc})
            if eff[ci] is None:
                if b["o"] != ["noattr"]:
                    o17["viol"].append({"law": "a class without definitions and without inherited definitions has the method", "class": ci, "impl": b["o"], "scenario": desc})
                continue
            if len(eff[ci]) >= 2:
                o17["nontrivial"] += 1
            key = (tuple(eff[ci]), kind[ci])
            if key not in refs:
                refs[key] = cw.fresh_reference(eff[ci], plain=kind[ci] == "plain")
            r = cw.ref_call(refs[key], Ks[ci](), ai)
            if (r["o"], r["t"]) != (b["o"], b["t"]):
                o17["viol"].append({"law": "call differs from a brand-new function over the documented method set of the class", "class": ci, "arg": ai, "effective": eff[ci], "impl": {"o": b["o"], "t": b["t"]}, "fresh": r, "scenario": desc})
    res = run_driver(batch) if batch else []
    for r, (w, sc, cw, im, desc) in zip(res, meta):
        if "error" in r:
            out["corr"].append({"layer": "J", "kind": "driver-error", "detail": r["error"], "scenario": desc})
            continue
        Ks = im["Ks"]
        broke = False
        if not all(r.get("spec", [])):
            out["corr"].append({"layer": "J", "what": "the declarative effective method set (Spec/ClassSpec.lean) differs from the graph built by the model of the class dict", "spec": r.get("spec"), "scenario": desc})
            continue
        bump("classes whose effective set was compared with the model graph", len(r["spec"]))
        for i, a in enumerate(r["attr"]):
            ra = real_attr(Ks[i])
            ma = [a[0]] + ([a[2]] if a[0] == "node" else [])
            if ma != ra:
                out["corr"].append({"layer": "J", "what": "what the class holds under the name", "class": i, "model": a, "impl": ra, "scenario": desc})
                broke = True
                break
        if broke:
            continue
        for (ci, ai), b, m in zip(sc["calls"], im["calls"], r["calls"]):
            if m is None:
                continue
            mo = m["o"]
            if mo and mo[0] == "ambiguous":
                mo = ["ambiguous"]
            if {"o": mo, "t": m["t"]} != {"o": b["o"], "t": b["t"]}:
                out["corr"].append({"layer": "J", "what": "call on an instance", "class": ci, "arg": ai, "model": {"o": mo, "t": m["t"]}, "impl": {"o": b["o"], "t": b["t"]}, "scenario": desc})
                break
            e = m["exp"]
            if e["o"] and e["o"][0] == "ambiguous":
                e["o"] = ["ambiguous"]
            if {"o": e["o"], "t": e["t"]} != {"o": b["o"], "t": b["t"]}:
                orc("C17")["viol"].append({"law": "the method's table is stale w.r.t. the definitions of the functions it derives from", "class": ci, "arg": ai, "scenario": desc})
    return out


def worker(payload):
    seed, n, _ = payload
    return evaluate(seed, n)


if __name__ == "__main__":
    seed = int(sys.argv[1]) if len(sys.argv) > 1 else 0
    n = int(sys.argv[2]) if len(sys.argv) > 2 else 60
    r = evaluate(seed, n)
    print(r["ops"], r["hist"], "corr", len(r["corr"]))
    for k, o in r["oracles"].items():
        print(k, o["n"], o["nontrivial"], "viol", len(o["viol"]))
        laws = {}
        for v in o["viol"]:
            laws[v["law"]] = laws.get(v["law"], 0) + 1
        print(laws)
        for v in o["viol"][:2]:
            print(json.dumps({k2: v2 for k2, v2 in v.items() if k2 != "scenario"}, default=str)[:600])
            print(json.dumps(v["scenario"]["scenario"]["classes"]))
    for c in r["corr"][:3]:
        print(json.dumps({k2: v2 for k2, v2 in c.items() if k2 != "scenario"}, default=str)[:800])
        print(json.dumps(c["scenario"]["scenario"]["classes"]) if "scenario" in c else "")
