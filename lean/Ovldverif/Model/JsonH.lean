import Ovldverif.Model.Json
import Ovldverif.Model.Rewrite
/-! JSON encoding of the mini expression language of the rewrite layer (trusted glue). -/
set_option autoImplicit false
open Lean
namespace Ovld.Rw

def nameOfJson (j : Json) : Except String Name := do
  let a ← Ovld.jArr j
  match (← Ovld.jStr a[0]!) with
  | "user" => return .user (← Ovld.jStr a[1]!)
  | "tmp" =>
    let s ← Ovld.jArr a[2]!
    let slot ← match (← Ovld.jStr s[0]!) with
      | "pos" => pure (Slot.pos (← Ovld.jNat s[1]!))
      | "kw" => pure (Slot.kw (← Ovld.jStr s[1]!))
      | x => throw s!"bad slot {x}"
    return .tmp (← Ovld.jNat a[1]!) slot
  | x => throw s!"bad name {x}"

partial def exprOfJson (j : Json) : Except String Expr := do
  let a ← Ovld.jArr j
  let list (x : Json) : Except String (List Expr) := do (← Ovld.jArr x).toList.mapM exprOfJson
  match (← Ovld.jStr a[0]!) with
  | "lit" => return .lit (← Ovld.jInt a[1]!)
  | "var" => return .var (← nameOfJson a[1]!)
  | "glob" => return .glob (← Ovld.jStr a[1]!)
  | "named" => return .named (← nameOfJson a[1]!) (← exprOfJson a[2]!)
  | "tick" => return .tick (← Ovld.jStr a[1]!) (← exprOfJson a[2]!)
  | "add" => return .add (← exprOfJson a[1]!) (← exprOfJson a[2]!)
  | "ite" => return .ite (← exprOfJson a[1]!) (← exprOfJson a[2]!) (← exprOfJson a[3]!)
  | "call" =>
    let kws ← (← Ovld.jArr a[3]!).toList.mapM (fun p => do
      let q ← Ovld.jArr p
      return (← Ovld.jStr q[0]!, ← exprOfJson q[1]!))
    return .call (← exprOfJson a[1]!) (← list a[2]!) kws
  | "tuple" => return .tuple (← list a[1]!)
  | "pair" => return .pair (← Ovld.jStr a[1]!) (← exprOfJson a[2]!)
  | "subscript" => return .subscript (← exprOfJson a[1]!) (← exprOfJson a[2]!)
  | x => throw s!"bad expr {x}"

def nameToJson : Name → Json
  | .user s => Json.arr #[Json.str "user", Json.str s]
  | .tmp k (.pos i) => Json.arr #[Json.str "tmp", toJson k, Json.arr #[Json.str "pos", toJson i]]
  | .tmp k (.kw n) => Json.arr #[Json.str "tmp", toJson k, Json.arr #[Json.str "kw", Json.str n]]

partial def exprToJson : Expr → Json
  | .lit n => Json.arr #[Json.str "lit", toJson n]
  | .var x => Json.arr #[Json.str "var", nameToJson x]
  | .glob x => Json.arr #[Json.str "glob", Json.str x]
  | .named x e => Json.arr #[Json.str "named", nameToJson x, exprToJson e]
  | .tick t e => Json.arr #[Json.str "tick", Json.str t, exprToJson e]
  | .add a b => Json.arr #[Json.str "add", exprToJson a, exprToJson b]
  | .ite c a b => Json.arr #[Json.str "ite", exprToJson c, exprToJson a, exprToJson b]
  | .call f args kws => Json.arr #[Json.str "call", exprToJson f, Json.arr (args.map exprToJson).toArray,
      Json.arr (kws.map (fun p => Json.arr #[Json.str p.1, exprToJson p.2])).toArray]
  | .tuple es => Json.arr #[Json.str "tuple", Json.arr (es.map exprToJson).toArray]
  | .pair n e => Json.arr #[Json.str "pair", Json.str n, exprToJson e]
  | .subscript e i => Json.arr #[Json.str "subscript", exprToJson e, exprToJson i]

end Ovld.Rw
