import Ovldverif.Model.BuildTree
import Ovldverif.Props.C18
/-!
# C18 for a function with a linked variant

`Props/C18.lean` proves that one function is never left half-built.  A linked variant (`linkback=True`,
`@extend_super`) is rebuilt by its parent's `_update`; these theorems are about the pair (model:
`Model/BuildTree.lean`): after ANY history of registrations / removals on the function, registrations on the variant
and calls of either — with natural failures and with an interrupt inside any of the builds — both the function and
the variant are either out of service (first-call trampoline: the next call builds again and reports the problem
again if it persists) or serve exactly the complete set of definitions they are to be built from.

`C18_tree_old_counterexample`: with the `_update` of before the `fix:` for finding D41 (variants updated only after
the function's own rebuild had gone through) the invariant fails — one interrupted (or naturally failing) rebuild of
the function leaves the variant dispatching over the previous definitions.
-/
set_option autoImplicit false
namespace Ovld.Build

/-- `safeS` is the decidable form of `Safe` for a state whose `defns` field is `ds` -/
theorem safeS_iff (s : S) : safeS s s.defns = true ↔ Safe s := by
  rcases s with ⟨ds, c, e, tb⟩
  unfold safeS Safe
  cases c <;> cases e <;> simp

theorem view_eq_of_defns {c : S} {ds : List Nat} (h : c.defns = ds) : ({ c with defns := ds } : S) = c := by
  subst h; rfl

theorem safeS_view (t : T) : safeS t.c t.eff = safeS t.view t.view.defns := rfl

/-- the invariant as a proposition -/
theorem T.safe_iff (t : T) : t.safe = true ↔ Safe t.p ∧ Safe t.c ∧ t.c.defns = t.eff := by
  unfold T.safe
  rw [Bool.and_eq_true, Bool.and_eq_true, safeS_iff, safeS_view, safeS_iff, beq_iff_eq, and_assoc]
  constructor
  · rintro ⟨h1, h2, h3⟩
    refine ⟨h1, ?_, h3⟩
    have : t.view = t.c := view_eq_of_defns h3
    rwa [this] at h2
  · rintro ⟨h1, h2, h3⟩
    refine ⟨h1, ?_, h3⟩
    have : t.view = t.c := view_eq_of_defns h3
    rwa [this]

theorem T.view_eq {t : T} (h : t.safe = true) : t.view = t.c :=
  view_eq_of_defns ((T.safe_iff t).1 h).2.2

/-- what `_update` needs of a function whose definitions just changed -/
def Pre (s : S) : Prop := s.compiled = false → s.entry = none

theorem updateC_spec (cfg : Cfg) (t : T) (ic : Bool) (hc : Pre t.c) :
    (updateC cfg t ic).1.p = t.p ∧ (updateC cfg t ic).1.own = t.own ∧ Safe (updateC cfg t ic).1.c ∧
      (updateC cfg t ic).1.c.defns = t.eff := by
  unfold updateC
  split
  · have h := compile_safe cfg t.view (intr ic)
    rcases hcomp : compile cfg t.view (intr ic) with ⟨s', ok, f'⟩
    rw [hcomp] at h
    exact ⟨rfl, rfl, h.1, h.2⟩
  · rename_i hn
    simp at hn
    exact ⟨rfl, rfl, Or.inl ⟨hc hn, hn⟩, rfl⟩

theorem updateC_safe (cfg : Cfg) (t : T) (ic : Bool) (hp : Safe t.p) (hc : Pre t.c) :
    (updateC cfg t ic).1.safe = true := by
  obtain ⟨h1, h2, h3, h4⟩ := updateC_spec cfg t ic hc
  rw [T.safe_iff]
  refine ⟨h1 ▸ hp, h3, ?_⟩
  rw [h4]; unfold T.eff; rw [h1, h2]

theorem updateP_safe (cfg : Cfg) (t : T) (ip ic : Bool) (hp : Pre t.p) (hc : Pre t.c) :
    (updateP cfg t ip ic).1.safe = true := by
  unfold updateP
  by_cases hcp : t.p.compiled = true
  · have h := compile_safe cfg t.p (intr ip)
    rcases hcomp : compile cfg t.p (intr ip) with ⟨s', ok, f'⟩
    rw [hcomp] at h
    simp only [hcp, if_true]
    exact updateC_safe cfg { t with p := s' } ic h.1 hc
  · simp only [hcp]
    simp at hcp
    exact updateC_safe cfg { t with p := t.p } ic (Or.inl ⟨hp hcp, hcp⟩) hc

theorem pre_of_safe {s : S} (h : Safe s) (ds : List Nat) : Pre { s with defns := ds } :=
  fun hc => entry_none_of_not_compiled (s := s) h hc

/-- **one operation** keeps the pair safe -/
theorem C18_tree_step (cfg : Cfg) (t : T) (op : TOp) (h : t.safe = true) : (stepT cfg t op).1.safe = true := by
  obtain ⟨hp, hc, hd⟩ := (T.safe_iff t).1 h
  have hpc : Pre t.c := fun hn => entry_none_of_not_compiled hc hn
  cases op with
  | regP d ip ic => exact updateP_safe cfg _ ip ic (pre_of_safe hp _) hpc
  | unregP d ip ic => exact updateP_safe cfg _ ip ic (pre_of_safe hp _) hpc
  | regC d ic =>
    show (match updateC cfg { t with own := addDef t.own d } ic with
      | (t', ok) => (t', if ok then Out.done else Out.error)).1.safe = true
    exact updateC_safe cfg { t with own := addDef t.own d } ic hp hpc
  | callP r ip =>
    have hs := call_spec cfg t.p r (intr ip) hp
    show (match call cfg t.p r (intr ip) with
      | (p', o) => (({ t with p := p' } : T), o)).1.safe = true
    rcases hcall : call cfg t.p r (intr ip) with ⟨p', o⟩
    rw [hcall] at hs
    rw [T.safe_iff]
    refine ⟨hs.2.1, hc, ?_⟩
    show t.c.defns = p'.defns ++ t.own
    rw [hs.2.2.1]; exact hd
  | callC r ic =>
    have hv : t.view = t.c := T.view_eq h
    have hs := call_spec cfg t.view r (intr ic) (hv ▸ hc)
    show (match call cfg t.view r (intr ic) with
      | (c', o) => (({ t with c := c' } : T), o)).1.safe = true
    rcases hcall : call cfg t.view r (intr ic) with ⟨c', o⟩
    rw [hcall] at hs
    rw [T.safe_iff]
    exact ⟨hp, hs.2.1, hs.2.2.1⟩

theorem runT_safe (cfg : Cfg) : ∀ (ops : List TOp) (t : T), t.safe = true → (runT cfg t ops).safe = true := by
  intro ops
  induction ops with
  | nil => intro t h; exact h
  | cons op rest ih => intro t h; exact ih _ (C18_tree_step cfg t op h)

/-- **every history**: the function and its linked variant are never left serving anything but the complete set of
    definitions they are to be built from -/
theorem C18_tree (cfg : Cfg) (ops : List TOp) : (runT cfg {} ops).safe = true :=
  runT_safe cfg ops {} (by decide)

theorem stepT_callC (cfg : Cfg) (t : T) (r : Route) (ic : Bool) :
    (stepT cfg t (.callC r ic)).2 = (call cfg t.view r (intr ic)).2 := by
  show (match call cfg t.view r (intr ic) with
      | (c', o) => (({ t with c := c' } : T), o)).2 = _
  rcases call cfg t.view r (intr ic) with ⟨c', o⟩
  rfl

/-- **later calls of the variant** either fail or are answered by the entry point of the complete merged method set
    over the complete table -/
theorem C18_tree_call (cfg : Cfg) (ops : List TOp) (r : Route) (ic : Bool) :
    let t := runT cfg {} ops
    (stepT cfg t (.callC r ic)).2 = .error ∨ (stepT cfg t (.callC r ic)).2 = .served t.eff t.eff := by
  intro t
  have h : t.safe = true := C18_tree cfg ops
  have hs : Safe t.view := by rw [T.view_eq h]; exact ((T.safe_iff t).1 h).2.1
  rw [stepT_callC]
  exact (C18_call cfg t.view r (intr ic) hs).1

/-- **once the offending method is removed the variant works normally** -/
theorem C18_tree_recovers (cfg : Cfg) (ops : List TOp) (r : Route)
    (hg : AllGood cfg (runT cfg {} ops).eff) :
    let t := runT cfg {} ops
    (stepT cfg t (.callC r false)).2 = .served t.eff t.eff := by
  intro t
  have h : t.safe = true := C18_tree cfg ops
  have hs : Safe t.view := by rw [T.view_eq h]; exact ((T.safe_iff t).1 h).2.1
  rw [stepT_callC]
  exact C18_recovers cfg t.view r hs hg

/-- the defect that was repaired (finding D41): with the former `_update`, one interrupted rebuild of the function
    leaves the variant in service over the previous definitions (`[1]` instead of `[1, 2]`), and its calls are
    answered from them -/
theorem C18_tree_old_counterexample :
    let cfg : Cfg := ⟨fun _ => false, fun _ => true⟩
    let ops : List TOp := [.regP 1 false false, .callP .obj false, .callC .fn false, .regP 2 true false]
    (runOld cfg {} ops).safe = false ∧
      (stepOld cfg (runOld cfg {} ops) (.callC .fn false)).2 = .served [1] [1] ∧
      (runOld cfg {} ops).eff = [1, 2] ∧
      (runT cfg {} ops).safe = true ∧
      (stepT cfg (runT cfg {} ops) (.callC .fn false)).2 = .served [1, 2] [1, 2] := by
  decide

/-- non-vacuity: a history with a natural failure on the function, an interrupt inside the variant's rebuild, a
    registration on the variant and a removal -/
example :
    let cfg : Cfg := ⟨fun d => d == 9, fun _ => true⟩
    let ops : List TOp := [.regP 1 false false, .callC .obj false, .regC 5 false, .regP 9 false false,
      .callC .fn false, .unregP 9 false true, .callP .obj false, .callC .obj false]
    (runT cfg {} ops).safe = true ∧ (runT cfg {} ops).c.table = [1, 5] ∧
      (stepT cfg (runT cfg {} (ops.take 4)) (.callC .fn false)).2 = .error := by
  decide

end Ovld.Build
