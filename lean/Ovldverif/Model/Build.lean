/-!
# Layer I: the lazy build of an `Ovld` as a sequence of micro-steps, each of which may be hit by a fault

State of one function object, as far as `compile` / `_update` / the trampoline are concerned
(core.py: `Ovld.compile`, `Ovld._compile`, `Ovld._update`, `Ovld._register`, `Ovld.unregister`,
`Ovld.__call__`, `bootstrap_dispatch.first_entry`):

* `defns`    — the registered methods (`self._defns`, in registration order; methods are `Nat` identities),
* `compiled` — `self._compiled`,
* `entry`    — what `self.dispatch.__code__` is: `none` = the first-call trampoline (`first_entry`), `some ds`
               = the entry point generated from the method set `ds`,
* `table`    — the methods registered so far in the current `self.map`.

`_compile` is: (0) lock ancestors, (1) `self.map = MultiTypeMap()`, (2) argument analysis — raises for conflicting
argument names, (3..) `register_signature` per method — raises for a method that cannot be adapted (misuse of
`call_next`, unreadable source, a user hook that raises), then the generated code is swapped into `self.dispatch`
(since the `fix:` for finding D16a the entry point goes into service only after the table is filled),
(last) `self._compiled = True`.  `compile` wraps it: on any exception `_compiled = False` and the trampoline's
code is put back (the `fix:` for finding D15).

A *fault budget* `f : Option Nat` says how many micro-steps still execute before an asynchronous exception (an
interrupt) is raised; `none` = no interrupt.  Natural failures come from `Cfg`.  The handler of `compile` is
taken to run to completion (a second interrupt inside the handler is outside the model, see DESIGN.md).
-/
set_option autoImplicit false
namespace Ovld.Build

structure Cfg where
  /-- adapting / registering this method raises -/
  bad : Nat → Bool
  /-- argument analysis accepts this method set -/
  namesOK : List Nat → Bool

structure S where
  defns : List Nat := []
  compiled : Bool := false
  entry : Option (List Nat) := none
  table : List Nat := []
deriving DecidableEq, Repr

/-- one tick of the fault budget -/
def dec : Option Nat → Option Nat
  | none => none
  | some n => some (n - 1)

def strikes : Option Nat → Bool
  | some 0 => true
  | _ => false

/-- steps (4..): `for key, fn in self.defns.items(): self.register_signature(key, fn)`.
    Returns the table, whether the loop completed, and the remaining budget. -/
def fill (cfg : Cfg) : List Nat → List Nat → Option Nat → List Nat × Bool × Option Nat
  | table, [], f => (table, true, f)
  | table, d :: ds, f =>
    if strikes f then (table, false, none)
    else if cfg.bad d then (table, false, dec f)
    else fill cfg (table ++ [d]) ds (dec f)

/-- `_compile` up to the point where it returns or raises (the state *before* the handler runs) -/
def compileRaw (cfg : Cfg) (s : S) (f : Option Nat) : S × Bool × Option Nat :=
  if strikes f then (s, false, none) else
  let f := dec f
  let s := { s with table := [] }
  if strikes f then (s, false, none) else
  let f := dec f
  if !cfg.namesOK s.defns then (s, false, f) else
  match fill cfg [] s.defns f with
  | (t, false, f) => ({ s with table := t }, false, f)
  | (t, true, f) =>
    let s := { s with table := t }
    if strikes f then (s, false, none) else
    let f := dec f
    let s := { s with entry := some s.defns }
    if strikes f then (s, false, none) else
    ({ s with compiled := true }, true, dec f)

/-- the `except BaseException` clause of `compile` -/
def handler (s : S) : S := { s with compiled := false, entry := none }

/-- `Ovld.compile` -/
def compile (cfg : Cfg) (s : S) (f : Option Nat) : S × Bool × Option Nat :=
  match compileRaw cfg s f with
  | (s', true, f') => (s', true, f')
  | (s', false, f') => (handler s', false, f')

inductive Route | obj | fn
deriving DecidableEq, Repr

inductive Op
  | register (d : Nat) (fault : Option Nat)
  | unregister (d : Nat) (fault : Option Nat)
  | call (r : Route) (fault : Option Nat)
deriving Repr

/-- `served e t`: a dispatch answer computed by the entry point generated for the method set `e` over a table
    holding the methods `t` -/
inductive Out | done | error | served (entry table : List Nat)
deriving DecidableEq, Repr

/-- `_update` (for one function without children): rebuild when already built -/
def update (cfg : Cfg) (s : S) (f : Option Nat) : S × Out :=
  if s.compiled then
    match compile cfg s f with
    | (s', true, _) => (s', .done)
    | (s', false, _) => (s', .error)
  else (s, .done)

/-- `_register`: (0) checks, (1) `self._defns[sig] = fn`, (2) `self._update()` -/
def register (cfg : Cfg) (s : S) (d : Nat) (f : Option Nat) : S × Out :=
  if strikes f then (s, .error) else
  let f := dec f
  let s := { s with defns := if s.defns.contains d then s.defns else s.defns ++ [d] }
  if strikes f then (s, .error) else
  update cfg s (dec f)

def unregister (cfg : Cfg) (s : S) (d : Nat) (f : Option Nat) : S × Out :=
  if strikes f then (s, .error) else
  let f := dec f
  let s := { s with defns := s.defns.filter (· != d) }
  if strikes f then (s, .error) else
  update cfg s (dec f)

/-- calling `self.dispatch`: the trampoline (`first_entry`: `ov.ensure_compiled(); return ov.dispatch(...)`) builds
    unless the function is flagged built — in which case it would call itself for ever (`RecursionError`); the
    generated code looks the arguments up in the current table -/
def dispatchCall (cfg : Cfg) (s : S) (f : Option Nat) : S × Out :=
  match s.entry with
  | some e => (s, .served e s.table)
  | none =>
    if s.compiled then (s, .error) else
    match compile cfg s f with
    | (s', true, _) => (s', .served (s'.entry.getD []) s'.table)
    | (s', false, _) => (s', .error)

/-- `Ovld.__call__` (route `obj`: `if not self._compiled: self.compile()`, then `self.dispatch(...)`) or the
    dispatch function itself (route `fn`, what `@ovld` binds the name to) -/
def call (cfg : Cfg) (s : S) (r : Route) (f : Option Nat) : S × Out :=
  match r with
  | .fn => dispatchCall cfg s f
  | .obj =>
    if !s.compiled then
      match compile cfg s f with
      | (s', true, f') => dispatchCall cfg s' f'
      | (s', false, _) => (s', .error)
    else dispatchCall cfg s f

def step (cfg : Cfg) (s : S) : Op → S × Out
  | .register d f => register cfg s d f
  | .unregister d f => unregister cfg s d f
  | .call r f => call cfg s r f

def runOps (cfg : Cfg) (s : S) : List Op → S
  | [] => s
  | op :: rest => runOps cfg (step cfg s op).1 rest

/-- the window of finding D34: a change of the definitions of an already built function is interrupted after the
    definitions changed and before the rebuild started -/
def Op.inGap (s : S) : Op → Bool
  | .register _ (some 1) => s.compiled
  | .unregister _ (some 1) => s.compiled
  | _ => false

def opsNoGap (cfg : Cfg) : S → List Op → Bool
  | _, [] => true
  | s, op :: rest => !op.inGap s && opsNoGap cfg (step cfg s op).1 rest

/-- the micro-states a build from `s` goes through when nothing fails: used by the correspondence to compare the
    order of the observable state changes of the real `_compile` with the model's -/
def buildTrace (cfg : Cfg) (s : S) : List S :=
  let n := s.defns.length + 5
  (List.range (n + 1)).map (fun i => (compileRaw cfg s (some i)).1)

end Ovld.Build
