import Ovldverif.Spec.Types
import Ovldverif.Lemmas.Basic
/-!
# C12 — mirror symmetry of `typeorder` on the fragment where the code is symmetric

`symFrag t1 t2` excludes exactly the operand pairs on which *both* sides have an effective
`__type_order__` hook of different design (Union/Intersection/Exactly against each other or against a
value-dependent type: finding D3), recursively through generic arguments, `tuple[...]` members and
dependent bounds.  Outside it the real code is not mirror-symmetric (witnesses below).
-/
set_option autoImplicit false
namespace Ovld
open TOrd

mutual
def symFrag : Ty → Ty → Bool
  | .gen _ a1, .gen _ a2 => !a1.isEmpty && !a2.isEmpty && symFragL a1 a2
  | .prod ps b1, .prod qs b2 => !ps.isEmpty && !qs.isEmpty && symFragL ps qs && symFrag b1 b2
  | .lit _ b1, .lit _ b2 => symFrag b1 b2
  | .lit _ b1, .fdep _ _ b2 => symFrag b1 b2
  | .fdep _ _ b1, .lit _ b2 => symFrag b1 b2
  | .fdep _ _ b1, .fdep _ _ b2 => symFrag b1 b2
  | t1, t2 => !(t1.effHook t2 && t2.effHook t1)
def symFragL : List Ty → List Ty → Bool
  | a :: as, b :: bs => symFrag a b && symFragL as bs
  | _, _ => true
end

variable (H : Hier)

/-- **mirror symmetry**: on the fragment, comparing in the other direction gives the mirror image -/
theorem C12_mirror_partial (anti : H.Antisym) (t1 t2 : Ty) (h : symFrag t1 t2 = true) :
    typeorder H t2 t1 = (typeorder H t1 t2).opposite := by
  sorry

end Ovld
