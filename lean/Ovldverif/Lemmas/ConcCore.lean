import Ovldverif.Model.ConcLookup
import Ovldverif.Spec.CacheSpec
import Ovldverif.Lemmas.CacheInv
/-!
# One step of one thread of `Model/ConcLookup.lean` preserves the global and the thread-local invariant

Port of `design_prototypes/Conc.lean` to the generic cache model.  The global invariant is the project's
fault-tolerant `CInv` itself: it promises closure only for keys whose own entry `(none, k)` is present, and that
entry is the LAST write of a resolution (`ws_take_top`), so `CInv` holds after EVERY single dict access of every
thread (not only at quiescence).  `L` is the thread-local invariant (what a thread knows at its program
counter), stable under the steps of the other threads because those only add entries (`Ext`) and every value
ever written to a composite key is the one value the plan publishes for it (`ws_keys_nodup`).
-/
set_option autoImplicit false
set_option linter.unusedSectionVars false
namespace Ovld.ConcLookup
open Ovld

section
variable {K F E : Type} [DecidableEq K]

/-- the write `w` is in the state -/
def Present (st : St K F E) : W K F E → Prop
  | .c ck f => st.cache ck = some f
  | .e ck e => st.errors ck = some e

/-- `st'` extends `st`: nothing is evicted, nothing is overwritten with another value -/
structure Ext (st st' : St K F E) : Prop where
  c : ∀ ck f, st.cache ck = some f → st'.cache ck = some f
  e : ∀ ck e, st.errors ck = some e → st'.errors ck = some e
  a : ∀ k, st.all k ≠ none → st'.all k ≠ none

theorem Ext.refl (st : St K F E) : Ext st st := ⟨fun _ _ h => h, fun _ _ h => h, fun _ h => h⟩

theorem Ext.top {st st' : St K F E} (x : Ext st st') {ck : CKey K} (h : st.cache ck ≠ none) :
    st'.cache ck ≠ none := by
  cases hc : st.cache ck with
  | none => exact absurd hc h
  | some f => rw [x.c ck f hc]; simp

theorem Present.stable {st st' : St K F E} (x : Ext st st') : ∀ w, Present st w → Present st' w
  | .c ck f, h => x.c ck f h
  | .e ck e, h => x.e ck e h

theorem applyW1_c_cache (st : St K F E) (ck x : CKey K) (f : F) :
    (applyW1 st (.c ck f)).cache x = if x = ck then some f else st.cache x := rfl
theorem applyW1_c_errors (st : St K F E) (ck : CKey K) (f : F) :
    (applyW1 st (.c ck f)).errors = st.errors := rfl
theorem applyW1_e_errors (st : St K F E) (ck x : CKey K) (e : E) :
    (applyW1 st (.e ck e)).errors x = if x = ck then some e else st.errors x := rfl
theorem applyW1_e_cache (st : St K F E) (ck : CKey K) (e : E) :
    (applyW1 st (.e ck e)).cache = st.cache := rfl
theorem applyW1_all (st : St K F E) (w : W K F E) : (applyW1 st w).all = st.all := by
  cases w <;> rfl

theorem applyW1_present (st : St K F E) (w : W K F E) : Present (applyW1 st w) w := by
  cases w with
  | c ck f => simp [Present, applyW1_c_cache]
  | e ck e => simp [Present, applyW1_e_errors]

variable (plan : K → Plan F E)

/-- thread-local invariant, relative to the thread's request -/
def L (st : St K F E) (req : CKey K) : PC K F E → Prop
  | .top0 k ret => req = (ret, k)
  | .top1 k ret => req = (ret, k)
  | .top2 k ret rest => req = (ret, k) ∧ (plan k).fail = false ∧ st.all k ≠ none ∧
      ∃ pre, ws plan k = pre ++ rest ∧ ∀ w ∈ pre, Present st w
  | .top3 k ret => req = (ret, k) ∧ (plan k).fail = false ∧ (plan k).ranks.isEmpty = false ∧
      ∀ w ∈ ws plan k, Present st w
  | .top4 k ret => req = (ret, k) ∧ (plan k).fail = false ∧ (plan k).ranks.isEmpty = false ∧
      (∀ w ∈ ws plan k, Present st w) ∧ lastE (none, k) (ws plan k) = none
  | .next0 c k => req = (some c, k)
  | .next1 c k f => req = (some c, k) ∧ pureTop plan k = .ok f ∧ st.cache (none, k) ≠ none
  | .next2 c k => req = (some c, k) ∧ (∃ f, pureTop plan k = .ok f) ∧ (plan k).allCodes.contains c = true ∧
      st.cache (none, k) ≠ none
  | .next3 c k => req = (some c, k) ∧ (∃ f, pureTop plan k = .ok f) ∧ (plan k).allCodes.contains c = true ∧
      st.cache (none, k) ≠ none ∧ lastE (some c, k) (ws plan k) = none
  | .done r => r = pureLookup plan req

/-- what a thread knows survives the steps of the other threads -/
theorem L.stable {st st' : St K F E} {req : CKey K} (x : Ext st st') :
    ∀ pc, L plan st req pc → L plan st' req pc
  | .top0 _ _, h => h
  | .top1 _ _, h => h
  | .top2 _ _ _, ⟨h1, h2, h3, pre, h4, h5⟩ =>
    ⟨h1, h2, x.a _ h3, pre, h4, fun w hw => Present.stable x w (h5 w hw)⟩
  | .top3 _ _, ⟨h1, h2, h3, h4⟩ => ⟨h1, h2, h3, fun w hw => Present.stable x w (h4 w hw)⟩
  | .top4 _ _, ⟨h1, h2, h3, h4, h5⟩ => ⟨h1, h2, h3, fun w hw => Present.stable x w (h4 w hw), h5⟩
  | .next0 _ _, h => h
  | .next1 _ _ _, ⟨h1, h2, h3⟩ => ⟨h1, h2, x.top h3⟩
  | .next2 _ _, ⟨h1, h2, h3, h4⟩ => ⟨h1, h2, h3, x.top h4⟩
  | .next3 _ _, ⟨h1, h2, h3, h4, h5⟩ => ⟨h1, h2, h3, x.top h4, h5⟩
  | .done _, h => h

theorem L_start (st : St K F E) (ck : CKey K) : L plan st ck (startPC ck) := by
  obtain ⟨c, k⟩ := ck
  cases c <;> simp [startPC, L]

/-- the entry of the looked-up key itself is the last write of its resolution -/
theorem ws_top_last (k : K) (f : F) (pre rest : List (W K F E))
    (h : ws plan k = pre ++ W.c (none, k) f :: rest) : rest = [] := by
  have hm : W.c (none, k) f ∈ (ws plan k).take (pre.length + 1) := by
    rw [h, List.take_append]
    simp
  have ht := ws_take_top plan k (pre.length + 1) f hm
  have hl := congrArg List.length ht
  rw [List.length_take, h] at hl
  simp only [List.length_append, List.length_cons] at hl
  have : rest.length = 0 := by omega
  exact List.eq_nil_of_length_eq_zero this

/-- a cached entry of the ordinary key is the pure answer -/
theorem pureTop_of_hit {st : St K F E} (g : CInv plan st) {k : K} {f : F} (hc : st.cache (none, k) = some f) :
    pureTop plan k = .ok f := by
  have l := g.cache_sub (none, k) f hc
  simp only [] at l
  obtain ⟨hr, he, _⟩ := ws_entry_top plan k none f l.1
  simp [pureTop, l.2, hr, he, l.1]

theorem L_retTop {st : St K F E} {k : K} {ret : Option Code} {r : Res F E}
    (hr : r = pureTop plan k) (hres : ∀ f, r = .ok f → st.cache (none, k) ≠ none) :
    L plan st (ret, k) (retTop ret k r) := by
  cases ret with
  | none => simp only [retTop, L, pureLookup]; exact hr
  | some c =>
    cases r with
    | ok f => exact ⟨rfl, hr.symm, hres f rfl⟩
    | amb e => simp only [retTop, L, pureLookup, pureNext, ← hr]
    | noMethod => simp only [retTop, L, pureLookup, pureNext, ← hr]
    | failed => simp only [retTop, L, pureLookup, pureNext, ← hr]
    | keyError => simp only [retTop, L, pureLookup, pureNext, ← hr]

/-- `mro(k)` recording `all[k]` preserves the invariant -/
theorem recordAll_ok {st : St K F E} (g : CInv plan st) (k : K) (hf : (plan k).fail = false) :
    Ext st (recordAll plan st k) ∧ CInv plan (recordAll plan st k) ∧ (recordAll plan st k).all k ≠ none := by
  have hx : Ext st (recordAll plan st k) :=
    ⟨fun _ _ h => h, fun _ _ h => h, fun k' h => by
      show (if k' = k then some (plan k).allCodes else st.all k') ≠ none
      by_cases e : k' = k <;> simp [e, h]⟩
  refine ⟨hx, ⟨g.cache_sub, g.errors_sub, ?_, g.closed_c, g.closed_e, fun k' f h => hx.a k' (g.top_all k' f h)⟩, ?_⟩
  · intro k' cs h
    have h' : (if k' = k then some (plan k).allCodes else st.all k') = some cs := h
    by_cases e : k' = k
    · subst e; simp at h'; exact ⟨h'.symm, hf⟩
    · simp [e] at h'; exact g.all_eq k' cs h'
  · show (if k = k then some (plan k).allCodes else st.all k) ≠ none
    simp

/-- one dict write of a resolution of `k`, at any time, whatever the other threads have written: the state only
    grows and `CInv` is preserved (the value is the one the plan publishes; the entry of `k` itself comes last) -/
theorem write_ok (ok : PlanOK plan) {st : St K F E} (g : CInv plan st) {k : K} (hf : (plan k).fail = false)
    (hall : st.all k ≠ none) {pre rest : List (W K F E)} {w : W K F E} (hws : ws plan k = pre ++ w :: rest)
    (hpre : ∀ w' ∈ pre, Present st w') :
    Ext st (applyW1 st w) ∧ CInv plan (applyW1 st w) ∧ ∀ w' ∈ pre ++ [w], Present (applyW1 st w) w' := by
  have nd := ws_keys_nodup plan ok k
  have hwin : w ∈ ws plan k := by rw [hws]; simp
  have hkey : w.key.2 = k := (writes_keys k _ _ _ ((mem_ws plan k _).1 hwin)).1
  have hx : Ext st (applyW1 st w) := by
    cases w with
    | c ck f =>
      refine ⟨?_, fun _ _ h => h, fun _ h => h⟩
      intro ck' f' h
      rw [applyW1_c_cache]
      by_cases e : ck' = ck
      · subst e
        have h1 := (g.cache_sub _ f' h).1
        have hk : ck'.2 = k := hkey
        rw [hk, lastC_eq_of_mem _ nd ck' f hwin] at h1
        simp [h1]
      · simp [e, h]
    | e ck er =>
      refine ⟨fun _ _ h => h, ?_, fun _ h => h⟩
      intro ck' e' h
      rw [applyW1_e_errors]
      by_cases e : ck' = ck
      · subst e
        have h1 := (g.errors_sub _ e' h).1
        have hk : ck'.2 = k := hkey
        rw [hk, lastE_eq_of_mem _ nd ck' er hwin] at h1
        simp [h1]
      · simp [e, h]
  have hpre' : ∀ w' ∈ pre ++ [w], Present (applyW1 st w) w' := by
    intro w' hw'
    rcases List.mem_append.mp hw' with h | h
    · exact Present.stable hx w' (hpre w' h)
    · simp at h; subst h; exact applyW1_present st _
  have hsubC : ∀ ck f, (applyW1 st w).cache ck = some f →
      lastC ck (ws plan ck.2) = some f ∧ (plan ck.2).fail = false := by
    intro ck f h
    cases w with
    | c ck' f' =>
      rw [applyW1_c_cache] at h
      by_cases e : ck = ck'
      · subst e
        simp at h; subst h
        have hk : ck.2 = k := hkey
        rw [hk]
        exact ⟨lastC_eq_of_mem _ nd ck f' hwin, hf⟩
      · simp [e] at h; exact g.cache_sub _ _ h
    | e ck' er => exact g.cache_sub _ _ h
  have hsubE : ∀ ck e, (applyW1 st w).errors ck = some e →
      lastE ck (ws plan ck.2) = some e ∧ (plan ck.2).fail = false := by
    intro ck e h
    cases w with
    | e ck' er =>
      rw [applyW1_e_errors] at h
      by_cases e' : ck = ck'
      · subst e'
        simp at h; subst h
        have hk : ck.2 = k := hkey
        rw [hk]
        exact ⟨lastE_eq_of_mem _ nd ck er hwin, hf⟩
      · simp [e'] at h; exact g.errors_sub _ _ h
    | c ck' f' => exact g.errors_sub _ _ h
  -- a key whose own entry is present after the write: either it was present before (closure is stable), or
  -- the write is the entry of `k` itself, the last one of `ws plan k`, and all the others are present
  have hclosed : ∀ k', (applyW1 st w).cache (none, k') ≠ none →
      (applyW1 st w).all k' ≠ none ∧ (∀ c, (applyW1 st w).cache (c, k') = lastC (c, k') (ws plan k')) ∧
        (∀ c, (applyW1 st w).errors (c, k') = lastE (c, k') (ws plan k')) := by
    intro k' hne
    have fillC : (∀ c f1, lastC (c, k') (ws plan k') = some f1 → (applyW1 st w).cache (c, k') = some f1) →
        ∀ c, (applyW1 st w).cache (c, k') = lastC (c, k') (ws plan k') := by
      intro hp c
      cases hl : lastC (c, k') (ws plan k') with
      | some f1 => exact hp c f1 hl
      | none =>
        cases h' : (applyW1 st w).cache (c, k') with
        | none => rfl
        | some f1 => have := (hsubC _ f1 h').1; simp only [] at this; rw [hl] at this; cases this
    have fillE : (∀ c e1, lastE (c, k') (ws plan k') = some e1 → (applyW1 st w).errors (c, k') = some e1) →
        ∀ c, (applyW1 st w).errors (c, k') = lastE (c, k') (ws plan k') := by
      intro hp c
      cases hl : lastE (c, k') (ws plan k') with
      | some e1 => exact hp c e1 hl
      | none =>
        cases h' : (applyW1 st w).errors (c, k') with
        | none => rfl
        | some e1 => have := (hsubE _ e1 h').1; simp only [] at this; rw [hl] at this; cases this
    cases hc : st.cache (none, k') with
    | some f0 =>
      have hne0 : st.cache (none, k') ≠ none := by rw [hc]; simp
      refine ⟨?_, fillC ?_, fillE ?_⟩
      · rw [applyW1_all]; exact g.top_all k' f0 hc
      · intro c f1 hl
        exact hx.c _ f1 (by rw [g.closed_c k' hne0 c]; exact hl)
      · intro c e1 hl
        exact hx.e _ e1 (by rw [g.closed_e k' hne0 c]; exact hl)
    | none =>
      cases w with
      | e ck er => rw [applyW1_e_cache, hc] at hne; exact absurd rfl hne
      | c ck f' =>
        rw [applyW1_c_cache] at hne
        by_cases e : ((none : Option Code), k') = ck
        · subst e
          have hk : k' = k := hkey
          subst hk
          have hrest : rest = [] := ws_top_last plan k' f' pre rest hws
          subst hrest
          have hp : ∀ w' ∈ ws plan k', Present (applyW1 st (W.c (none, k') f')) w' := by
            intro w' hw'; rw [hws] at hw'; exact hpre' w' hw'
          refine ⟨?_, fillC ?_, fillE ?_⟩
          · rw [applyW1_all]; exact hall
          · intro c f1 hl
            exact hp _ (lastC_mem _ _ _ hl)
          · intro c e1 hl
            exact hp _ (lastE_mem _ _ _ hl)
        · simp [e, hc] at hne
  refine ⟨hx, ⟨hsubC, hsubE, ?_, ?_, ?_, ?_⟩, hpre'⟩
  · intro k' cs h; rw [applyW1_all] at h; exact g.all_eq k' cs h
  · intro k' hne; exact (hclosed k' hne).2.1
  · intro k' hne; exact (hclosed k' hne).2.2
  · intro k' f h; exact (hclosed k' (by rw [h]; simp)).1

/-- one step of one thread: the state only grows, the global invariant and the invariant of the stepping thread
    are preserved -/
theorem step_ok (ok : PlanOK plan) (st : St K F E) (req : CKey K) (pc : PC K F E) (g : CInv plan st)
    (l : L plan st req pc) :
    Ext st (step plan st pc).1 ∧ CInv plan (step plan st pc).1 ∧
      L plan (step plan st pc).1 req (step plan st pc).2 := by
  cases pc with
  | done r => exact ⟨Ext.refl _, g, l⟩
  | top0 k ret =>
    simp only [L] at l; subst l
    simp only [step]
    cases h : st.cache (none, k) with
    | none => exact ⟨Ext.refl _, g, rfl⟩
    | some f =>
      exact ⟨Ext.refl _, g, L_retTop plan (pureTop_of_hit plan g h).symm (fun _ _ => by rw [h]; simp)⟩
  | top1 k ret =>
    simp only [L] at l; subst l
    simp only [step]
    cases hf : (plan k).fail with
    | true =>
      simp only [if_true]
      exact ⟨Ext.refl _, g, L_retTop plan (by simp [pureTop, hf]) (fun f h => by cases h)⟩
    | false =>
      simp only [Bool.false_eq_true, if_false]
      obtain ⟨hx, hg, ha⟩ := recordAll_ok plan g k hf
      exact ⟨hx, hg, rfl, hf, ha, [], rfl, fun _ h => by cases h⟩
  | top2 k ret rest =>
    obtain ⟨hreq, hf, hall, pre, hws, hpre⟩ := l
    cases rest with
    | nil =>
      simp only [step]
      have hp : ∀ w ∈ ws plan k, Present st w := by
        intro w hw; rw [hws] at hw; simp at hw; exact hpre w hw
      cases hr : (plan k).ranks.isEmpty with
      | true =>
        simp only [if_true]
        subst hreq
        exact ⟨Ext.refl _, g, L_retTop plan (by simp [pureTop, hf, hr]) (fun f h => by cases h)⟩
      | false =>
        simp only [Bool.false_eq_true, if_false]
        exact ⟨Ext.refl _, g, hreq, hf, hr, hp⟩
    | cons w rest =>
      simp only [step]
      obtain ⟨hx, hg, hpre'⟩ := write_ok plan ok g hf hall hws hpre
      exact ⟨hx, hg, hreq, hf, hx.a k hall, pre ++ [w], by rw [hws]; simp, hpre'⟩
  | top3 k ret =>
    obtain ⟨hreq, hf, hne, hp⟩ := l
    subst hreq
    simp only [step]
    cases h : st.errors (none, k) with
    | some e =>
      have hpe := (g.errors_sub _ e h).1
      simp only [] at hpe
      exact ⟨Ext.refl _, g, L_retTop plan (by simp [pureTop, hf, hne, hpe]) (fun f h => by cases h)⟩
    | none =>
      refine ⟨Ext.refl _, g, rfl, hf, hne, hp, ?_⟩
      cases hpe : lastE (none, k) (ws plan k) with
      | none => rfl
      | some e => have := hp _ (lastE_mem _ _ _ hpe); simp [Present, h] at this
  | top4 k ret =>
    obtain ⟨hreq, hf, hne, hp, hpe⟩ := l
    subst hreq
    simp only [step]
    cases h : st.cache (none, k) with
    | some f =>
      exact ⟨Ext.refl _, g, L_retTop plan (pureTop_of_hit plan g h).symm (fun _ _ => by rw [h]; simp)⟩
    | none =>
      have hpc : lastC (none, k) (ws plan k) = none := by
        cases hpc : lastC (none, k) (ws plan k) with
        | none => rfl
        | some f => have := hp _ (lastC_mem _ _ _ hpc); simp [Present, h] at this
      exact ⟨Ext.refl _, g, L_retTop plan (by simp [pureTop, hf, hne, hpe, hpc]) (fun f h => by cases h)⟩
  | next0 c k =>
    simp only [L] at l; subst l
    simp only [step]
    cases h : st.cache (some c, k) with
    | none => exact ⟨Ext.refl _, g, rfl⟩
    | some f =>
      refine ⟨Ext.refl _, g, ?_⟩
      have l := g.cache_sub (some c, k) f h
      simp only [] at l
      obtain ⟨hr, he, g', hg'⟩ := ws_entry_top plan k (some c) f l.1
      have hcode : c ∈ (plan k).allCodes := List.contains_iff_mem.1 (ws_entry_code plan ok k c f l.1)
      have hne := ws_entry_no_err plan ok k c f l.1
      simp [L, pureLookup, pureNext, pureTop, l.2, hr, he, hg', hcode, hne, l.1]
  | next1 c k f =>
    obtain ⟨hreq, htop, hr⟩ := l
    subst hreq
    simp only [step]
    have hall : st.all k ≠ none := by
      cases hc : st.cache (none, k) with
      | none => exact absurd hc hr
      | some f0 => exact g.top_all k f0 hc
    cases h : st.all k with
    | none => exact absurd h hall
    | some cs =>
      have := (g.all_eq k cs h).1; subst this
      simp only []
      cases hm : (plan k).allCodes.contains c with
      | true =>
        simp only [Bool.not_true, Bool.false_eq_true, if_false]
        exact ⟨Ext.refl _, g, rfl, ⟨f, htop⟩, hm, hr⟩
      | false =>
        simp only [Bool.not_false, if_true]
        refine ⟨Ext.refl _, g, ?_⟩
        have hm' : c ∉ (plan k).allCodes := by simpa using hm
        simp [L, pureLookup, pureNext, htop, hm']
  | next2 c k =>
    obtain ⟨hreq, ⟨f, htop⟩, hm, hr⟩ := l
    subst hreq
    simp only [step]
    have hce := g.closed_e k hr (some c)
    have hm' : c ∈ (plan k).allCodes := List.contains_iff_mem.1 hm
    cases h : st.errors (some c, k) with
    | some e =>
      refine ⟨Ext.refl _, g, ?_⟩
      rw [h] at hce
      simp [L, pureLookup, pureNext, htop, hm', ← hce]
    | none =>
      rw [h] at hce
      exact ⟨Ext.refl _, g, rfl, ⟨f, htop⟩, hm, hr, hce.symm⟩
  | next3 c k =>
    obtain ⟨hreq, ⟨f, htop⟩, hm, hr, hpe⟩ := l
    subst hreq
    simp only [step]
    have hcc := g.closed_c k hr (some c)
    have hm' : c ∈ (plan k).allCodes := List.contains_iff_mem.1 hm
    cases h : st.cache (some c, k) with
    | some f' =>
      refine ⟨Ext.refl _, g, ?_⟩
      rw [h] at hcc
      simp [L, pureLookup, pureNext, htop, hm', hpe, ← hcc]
    | none =>
      refine ⟨Ext.refl _, g, ?_⟩
      rw [h] at hcc
      simp [L, pureLookup, pureNext, htop, hm', hpe, ← hcc]

/-! ## a thread running alone executes `lookup` (the step model follows the sequential code path) -/

/-- `y` is reached from `x` by finitely many steps of one thread alone -/
def Reach (x y : St K F E × PC K F E) : Prop := ∃ n, iter plan n x = y

theorem iter_add (m n : Nat) (x : St K F E × PC K F E) : iter plan (m + n) x = iter plan n (iter plan m x) := by
  induction m generalizing x with
  | zero => simp [iter]
  | succ m ih =>
    have : m + 1 + n = (m + n) + 1 := by omega
    rw [this]
    exact ih _

theorem iter_done (n : Nat) (st : St K F E) (r : Res F E) : iter plan n (st, .done r) = (st, .done r) := by
  induction n with
  | zero => rfl
  | succ n ih => exact ih

theorem Reach.refl (x : St K F E × PC K F E) : Reach plan x x := ⟨0, rfl⟩

theorem Reach.trans {x y z : St K F E × PC K F E} (h1 : Reach plan x y) (h2 : Reach plan y z) : Reach plan x z := by
  obtain ⟨m, hm⟩ := h1
  obtain ⟨n, hn⟩ := h2
  exact ⟨m + n, by rw [iter_add, hm, hn]⟩

theorem Reach.one (st : St K F E) (pc : PC K F E) : Reach plan (st, pc) (step plan st pc) := ⟨1, rfl⟩

theorem Reach.head {st : St K F E} {pc : PC K F E} {z : St K F E × PC K F E}
    (h : Reach plan (step plan st pc) z) : Reach plan (st, pc) z := (Reach.one plan st pc).trans plan h

theorem applyW_cons (st : St K F E) (w : W K F E) (l : List (W K F E)) :
    applyW st (w :: l) = applyW (applyW1 st w) l := by
  cases w <;> rfl

/-- the publication phase performs `applyW` -/
theorem reach_writes (k : K) (ret : Option Code) : ∀ (rest : List (W K F E)) (st : St K F E),
    Reach plan (st, .top2 k ret rest) (applyW st rest, .top2 k ret [])
  | [], st => Reach.refl plan _
  | w :: rest, st => by
    rw [applyW_cons]
    exact Reach.head plan (reach_writes k ret rest (applyW1 st w))

theorem recordAll_resolve (st : St K F E) (k : K) : applyW (recordAll plan st k) (ws plan k) = resolve plan k st := rfl

/-- the lookup of an ordinary key, alone: the state and the result of `lookupTop` -/
theorem reach_top (st : St K F E) (k : K) (ret : Option Code) :
    Reach plan (st, .top0 k ret) ((lookupTop plan st k).1, retTop ret k (lookupTop plan st k).2) := by
  apply Reach.head
  unfold lookupTop
  simp only [step]
  cases hc : st.cache (none, k) with
  | some f => exact Reach.refl plan _
  | none =>
    simp only []
    apply Reach.head
    simp only [step]
    cases hf : (plan k).fail with
    | true => exact Reach.refl plan _
    | false =>
      simp only [Bool.false_eq_true, if_false]
      refine (reach_writes plan k ret (ws plan k) _).trans plan ?_
      rw [recordAll_resolve]
      apply Reach.head
      simp only [step]
      cases hr : (plan k).ranks.isEmpty with
      | true => exact Reach.refl plan _
      | false =>
        simp only [Bool.false_eq_true, if_false]
        apply Reach.head
        simp only [step]
        cases he : (resolve plan k st).errors (none, k) with
        | some e => exact Reach.refl plan _
        | none =>
          simp only []
          apply Reach.head
          simp only [step]
          cases hcc : (resolve plan k st).cache (none, k) with
          | some f => exact Reach.refl plan _
          | none => exact Reach.refl plan _

/-- the lookup of a continuation key, alone: the state and the result of `lookupNext` -/
theorem reach_next (st : St K F E) (c : Code) (k : K) :
    Reach plan (st, .next0 c k) ((lookupNext plan st c k).1, .done (lookupNext plan st c k).2) := by
  apply Reach.head
  unfold lookupNext
  simp only [step]
  cases hc : st.cache (some c, k) with
  | some f => exact Reach.refl plan _
  | none =>
    simp only []
    refine (reach_top plan st k (some c)).trans plan ?_
    generalize lookupTop plan st k = p
    obtain ⟨st', r⟩ := p
    cases r with
    | amb e => exact Reach.refl plan _
    | noMethod => exact Reach.refl plan _
    | failed => exact Reach.refl plan _
    | keyError => exact Reach.refl plan _
    | ok f =>
      simp only [retTop]
      apply Reach.head
      simp only [step]
      cases ha : st'.all k with
      | none => exact Reach.refl plan _
      | some cs =>
        simp only []
        cases hm : cs.contains c with
        | false => simp only [Bool.not_false, if_true]; exact Reach.refl plan _
        | true =>
          simp only [Bool.not_true, Bool.false_eq_true, if_false]
          apply Reach.head
          simp only [step]
          cases he : st'.errors (some c, k) with
          | some e => exact Reach.refl plan _
          | none =>
            simp only []
            apply Reach.head
            simp only [step]
            cases hcc : st'.cache (some c, k) with
            | some f' => exact Reach.refl plan _
            | none => exact Reach.refl plan _

theorem reach_lookup (st : St K F E) (ck : CKey K) :
    Reach plan (st, startPC ck) ((lookup plan st ck).1, .done (lookup plan st ck).2) := by
  obtain ⟨c, k⟩ := ck
  cases c with
  | none => exact reach_top plan st k none
  | some c => exact reach_next plan st c k

/-- a system of one thread scheduled `n` times is `iter n` -/
theorem run_single (n : Nat) : ∀ (st : St K F E) (pc : PC K F E),
    (Sys.mk st [pc]).run plan (List.replicate n 0) = ⟨(iter plan n (st, pc)).1, [(iter plan n (st, pc)).2]⟩ := by
  induction n with
  | zero => intro st pc; rfl
  | succ n ih => intro st pc; exact ih _ _

end
end Ovld.ConcLookup
