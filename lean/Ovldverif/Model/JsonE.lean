import Ovldverif.Model.JsonD
import Ovldverif.Model.Dependent
/-! Decoding for the dependent-dispatch layer (trusted glue). -/
set_option autoImplicit false
open Lean
namespace Ovld

partial def dvalOfJson (j : Json) : Except String DVal := do
  let kind ← match (← jStr (← jField j "kind")) with
    | "plain" => pure VKind.plain
    | "seq" => pure VKind.seq
    | "sized" => pure VKind.sized
    | s => throw s!"bad value kind {s}"
  let elems ← (← jArr (jFieldD j "elems" (Json.arr #[]))).toList.mapM dvalOfJson
  return .mk (← jNat (← jField j "vid")) (← jNat (← jField j "cls")) (← jNat (← jField j "eq")) kind elems

def dworldOfJson (j : Json) : Except String DWorld := do
  return (← cfgOfJson j).dworld

def dhandlerOfJson (j : Json) : Except String DHandler := do
  return (← jNat (← jField j "id"), ← (← jArr (← jField j "types")).toList.mapM slotTyOfJson)

def slotValOfJson (j : Json) : Except String (Slot × DVal) := do
  let a ← jArr j
  return (← slotOfJson a, ← dvalOfJson a[2]!)

def dresToJson : DRes → Json
  | .handler id => Json.arr #[Json.str "handler", toJson id]
  | .fallthrough => Json.arr #[Json.str "fallthrough"]
  | .ambiguous => Json.arr #[Json.str "ambiguous"]
  | .raised => Json.arr #[Json.str "raised"]

def triToStr : Tri → String | .yes => "y" | .no => "n" | .raises => "r"

end Ovld
