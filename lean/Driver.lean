import Ovldverif.Model.Json
import Ovldverif.Model.JsonD
import Ovldverif.Spec.Types
/-! Line-protocol driver: one JSON scenario per input line, one JSON result per output line. -/
open Lean Ovld

def runA (j : Json) : Except String Json := do
  let H ← hierOfJson (← jField j "hier")
  let ts ← (← jArr (← jField j "types")).toList.mapM tyOfJson
  let ord := ts.map (fun a => String.join (ts.map (fun b => (typeorder H a b).code)))
  let sub := ts.map (fun a => String.join (ts.map (fun b => if subclasscheck H a b then "1" else "0")))
  let n ← jNat (jFieldD j "n" (Json.num 0))
  let plain := String.join (ts.map (fun t => if t.plain then "1" else "0"))
  let down := String.join (ts.map (fun t => if t.downClosed then "1" else "0"))
  let memM := (List.range n).map (fun c => String.join (ts.map (fun t => if t.plain then (if mem H c t then "1" else "0") else "-")))
  let eff := ts.map (fun a => String.join (ts.map (fun b => if a.effHook b then "1" else "0")))
  return Json.mkObj [("ord", toJson ord), ("sub", toJson sub), ("plain", toJson plain), ("down", toJson down),
    ("mem", toJson memM), ("eff", toJson eff),
    ("frag", toJson (ts.map (fun a => String.join (ts.map (fun b => if symFrag a b then "1" else "0")))))]

def dedupS (xs : List String) : List String :=
  (xs.foldl (fun acc x => if acc.contains x then acc else x :: acc) []).mergeSort (fun a b => a ≤ b)

def ckStr (keys : List Key) (ck : CKey Key) : String :=
  let ki := match keys.findIdx? (· == ck.2) with | some i => toString i | none => "?"
  match ck.1 with
  | some c => s!"{c}:{ki}"
  | none => s!"-:{ki}"

def slotStr : Slot → String
  | .pos i => s!"p{i}"
  | .kw n => s!"k{n}"

def runD (j : Json) : Except String Json := do
  let cfg ← cfgOfJson j
  let meths ← (← jArr (← jField j "meths")).toList.mapM methOfJson
  let keys ← (← jArr (← jField j "keys")).toList.mapM keyOfJson
  let rts ← (← jArr (jFieldD j "rtypes" (Json.arr #[]))).toList.mapM tyOfJson
  let ops ← jArr (← jField j "ops")
  let mut mm : MMap := {}
  let mut out : Array Json := #[]
  for op in ops do
    let a ← jArr op
    let kind ← jStr a[0]!
    let mut res : Json := Json.null
    if kind == "reg" then
      let mi ← jNat a[1]!
      match meths[mi]? with
      | some m => mm := mm.register m
      | none => throw "bad method index"
    else if kind == "get" then
      let c : Option Nat ← (if a[1]!.isNull then pure none else some <$> jNat a[1]!)
      let ki ← jNat a[2]!
      match keys[ki]? with
      | some k =>
        let (mm', r) := mm.lookup cfg (c, k)
        mm := mm'
        res := resToJson r
      | none => throw "bad key index"
    else throw s!"bad op {kind}"
    let ck := dedupS (mm.st.cacheKeys.map (ckStr keys))
    let ek := dedupS (mm.st.errorKeys.map (ckStr keys))
    let ak := dedupS (mm.st.allKeys.map (fun k => ckStr keys (none, k)))
    let tk := dedupS (mm.tcache.map (fun e =>
      let ti := match rts.findIdx? (· == e.2) with | some i => toString i | none => "?"
      s!"{slotStr e.1}:{ti}"))
    out := out.push (Json.mkObj [("r", res), ("ck", toJson ck), ("ek", toJson ek), ("ak", toJson ak), ("tk", toJson tk)])
  return Json.mkObj [("ops", Json.arr out)]

def runLine (line : String) : String :=
  match Json.parse line with
  | .error e => (Json.mkObj [("error", Json.str s!"parse: {e}")]).compress
  | .ok j =>
    let r : Except String Json := do
      let layer ← jStr (← jField j "layer")
      match layer with
      | "A" => runA j
      | "D" => runD j
      | _ => throw s!"unknown layer {layer}"
    match r with
    | .ok v => v.compress
    | .error e => (Json.mkObj [("error", Json.str e)]).compress

partial def loop (h : IO.FS.Stream) (out : IO.FS.Stream) : IO Unit := do
  let line ← h.getLine
  if line.isEmpty then return ()
  let t := line.trimAscii.toString
  if !t.isEmpty then
    out.putStrLn (runLine t)
  loop h out

def main : IO Unit := do
  let out ← IO.getStdout
  loop (← IO.getStdin) out
  out.flush
