"""Development-time helper (never run by a check): copy the witnesses of unlisted failing classes from
replay files into known_findings.json after they have been triaged by hand."""
import glob, json, sys
prop = sys.argv[1]
what = {
 "D4": "Equals.get_keys returns only the first value of a Literal: on the lookup-table path (4 or more literal methods) the other values of a multi-valued Literal are lost, and exclusivity is inferred from the first values only (dependent.py L261-262, recode.py L211-223)",
 "D6": "overlapping Literal methods (equal values, or 1 == True) run the first match / the last table entry instead of raising the ambiguity (recode.py L211-223)",
 "D4D6": "Literal dispatch: first value only on the table path, first match on overlapping literals (findings D4 and D6 seen through whole functions)",
 "D7": "a value-dependent member of a Union / Intersection is checked without its bound and nested combinators are spliced without parentheses: conditions run on values outside their bound, exceptions leak, methods run on values their annotation excludes (types.py L323-329, L374-380)",
 "D20": "a dependent rank that falls through into a tied static rank raises 'No method' instead of the ambiguity (typemap.py L318, recode.py L280)",
 "D1D23": "levels of unrelated types / membership of a dependent rank depends on the sort head (findings D1, D23 with dependent types)",
 "D13": "an ancestor reached through an unlinked edge that is not the direct parent of the built function (or through a path mixing linked and unlinked edges) is neither locked nor propagating: it accepts a modification and the built descendant silently keeps the old table (core.py compile L487-489, lock L427-428)",
 "D14": "add_mixins on a function that is already in use (or on one of its linked ancestors) does not rebuild: the new mixin's methods are ignored (core.py add_mixins L434-440 has no _update())",
 "D1": "levels are integers: two applicable declared types that are unrelated (neither a subclass of the other) at different depths compare as ordered, so a method wins although the documented rule says Ambiguous (typemap.py Candidate.dominates / sort_key)",
 "D8": "the generated entry point's early exit for an omitted optional positional truncates the lookup key and the forwarded arguments: keyword arguments are dropped / another method runs / the call is rejected (recode.py generate_dispatch L149-160)",
 "D9": "a call with zero arguments bypasses resolution: MultiTypeMap.empty is the last registered zero-parameter entry whatever the priorities, and methods whose parameters are all optional are ignored (typemap.py L213-214, L377-382)",
 "D18": "call_next with a key for which the current method sits below a tied rank raises that rank's ambiguity instead of resolving among the methods below the current one (typemap.py __missing__ L364-366)",
 "D21": "tiebreaks are compared across different signatures: a negative tiebreak left behind by unregister (or carried by a replaced signature) decides between methods of different signatures where a fresh function is ambiguous (core.py _set / unregister, typemap.py dominates)",
 "D24": "call_next / f.next with zero arguments raises a raw KeyError(()) instead of the 'No method' TypeError (typemap.py __missing__ L364-367: self.all[()] is never set)",
 "D3": "typeorder is not mirror-symmetric when two effective __type_order__ hooks of different design face each other ({pair}): each hook answers from its own side only (types.py Union/Intersection.__type_order__, Exactly handler, dependent.py DependentType.__type_order__)",
 "D22": "two evaluations of Exactly[A] are unequal objects (SingleFunctionHandler has identity equality) and compare MORE in both directions",
 "D17": "subclasscheck is not transitive through {pair}: B <= A <= T but not B <= T; inherent in the documented meaning of the constructor",
}
path = "/verif/known_findings.json"
try:
    data = json.load(open(path))
except Exception:
    data = {"findings": [], "fixed": []}
have = {(f["property"], f["id"]) for f in data["findings"]}
for f in sorted(glob.glob(f"/verif/replays/{prop}_*.json")):
    d = json.load(open(f))
    law = d.get("law", "")
    if not law.startswith("failing class "):
        continue
    cid = law.split()[2]
    if (prop, cid) in have:
        continue
    d_id, _, pair = cid.partition(":")
    data["findings"].append({"property": prop, "id": cid, "defect": d_id, "what": what[d_id].format(pair=pair), "witness": d["witness"]})
    have.add((prop, cid))
json.dump(data, open(path, "w"), indent=1)
print(len(data["findings"]), "findings")
