import Ovldverif.Spec.Chain
import Ovldverif.Props.C02
import Ovldverif.Lemmas.C07Core
/-!
# C07 — call_next walks down the resolution order one method at a time

Statement changes w.r.t. the first draft (both with an executable counterexample, see `C07_step`):
`C07_step` has the extra hypothesis `hcodes`, `C07_next_partial` the extra hypothesis `codesAbove`
(defined in `Lemmas/C07Core.lean`): the publication loop of `MultiTypeMap.resolve` stops (`if not codes: break`,
typemap.py L356-357) below a rank none of whose handlers has a `__code__`, so the continuation keys of all lower
ranks are never written and `call_next` from them raises "No method" although lower ranks exist.
-/
set_option autoImplicit false
namespace Ovld

/-- what the continuation key of a method in rank `i` resolves to: the next rank -/
def nextRankRes (rs : List (Rank Entry (List Nat))) (i : Nat) : Res Entry (List Nat) :=
  match rs[i + 1]? with
  | some r => (match r.func with | some f => .ok f | none => .amb r.err)
  | none => .noMethod

theorem nextRankRes_eq (rs : List (Rank Entry (List Nat))) (i : Nat) : nextRankRes rs i = nextRes rs i := by
  unfold nextRankRes nextRes resOfRank
  cases rs[i + 1]? with
  | none => rfl
  | some r => dsimp only; cases r.func <;> rfl

/-- **one rank at a time**: `call_next` from a handler of rank `i` (for the key it was resolved for) yields
    exactly rank `i + 1`: its single handler, its dependent dispatcher, its ambiguity error when it is a tied
    rank, or "No method" below the last rank — for every table, key and set order, no hypothesis on the types.

    `hcodes` (every rank above `i` has at least one handler with a code object) was added: without it the
    statement is false.  Counterexample (chain of classes `3 <: 2 <: 1`, one positional parameter):
    `m0 : (3)` without code object, `m1 : (2)` with code 101, `m2 : (1)` with code 102, key `(3)`: the ranks are
    `[m0], [m1], [m2]`, `hprev` holds for `i = 1`, but the loop breaks after publishing `[m0]`, so
    `pureLookup (some 101, k) = .noMethod` whereas `nextRankRes ranks 1 = .ok (.meth 2)`. -/
theorem C07_step (cfg : Cfg) (ms : List Meth) (hd : DistinctHandlers ms) (k : Key) (c : Code) (i : Nat)
    (r : Rank Entry (List Nat)) (hr : (plan cfg ms k).ranks[i]? = some r) (hc : c ∈ r.codes)
    (f : Entry) (htop : pureLookup (plan cfg ms) (none, k) = .ok f)
    (hprev : ∀ j, j ≤ i → ∀ r', (plan cfg ms k).ranks[j]? = some r' → r'.func.isSome = true)
    (hcodes : ∀ j, j < i → ∀ r', (plan cfg ms k).ranks[j]? = some r' → r'.codes.isEmpty = false) :
    pureLookup (plan cfg ms) (some c, k) = nextRankRes (plan cfg ms k).ranks i := by
  rw [nextRankRes_eq]
  exact step_generic (plan cfg ms) (plan_ok cfg ms hd.ids hd.codes) k c i r hr hc f htop hprev hcodes

/-- **never the same method twice**: the handlers of different ranks are different -/
theorem C07_once (cfg : Cfg) (ms : List Meth) (hd : DistinctHandlers ms) (k : Key) (i j : Nat)
    (ri rj : Rank Entry (List Nat)) (hi : (plan cfg ms k).ranks[i]? = some ri) (hj : (plan cfg ms k).ranks[j]? = some rj)
    (hij : i ≠ j) (c : Code) (hci : c ∈ ri.codes) : c ∉ rj.codes :=
  flatMap_nodup_disjoint (fun r : Rank Entry (List Nat) => r.codes) (plan cfg ms k).ranks i j ri rj c
    ((plan_ok cfg ms hd.ids hd.codes).codes_nodup k) hi hj hij hci

/-- **fresh call**: when the current method is not a candidate for the key (it is not applicable to the new
    arguments), `call_next` behaves exactly like a fresh call -/
theorem C07_fresh (cfg : Cfg) (ms : List Meth) (k : Key) (c : Code)
    (h : (plan cfg ms k).allCodes.contains c = false) :
    pureLookup (plan cfg ms) (some c, k) = pureLookup (plan cfg ms) (none, k) :=
  pureNext_fresh (plan cfg ms) k c h

/-- **documented meaning**, static tables: `call_next` from `cur` resolves as if `cur` and everything ranked
    above it had not been registered — under the hypotheses of C02 and `strictAbove` (no tied rank at or above
    the current method: finding D18).

    `hca : codesAbove ..` (every applicable method that beats `cur` has a code object; decidable) was added:
    without it the statement is false — the counterexample of `C07_step` satisfies all other hypotheses with
    `cur = m1`, and `pureLookup (some 101, k) = .noMethod` whereas `nextSpec .. = .ran 2`. -/
theorem C07_next_partial (cfg : Cfg) (ms : List Meth) (wf : cfg.H.WF) (anti : cfg.H.Antisym)
    (hd : DistinctHandlers ms) (hst : staticTable ms = true) (htw : tableWF ms = true)
    (k : Key) (hk : keyWF k = true) (hne : k ≠ [])
    (hcc : candComparable cfg.H ms k = true) (htie : sigTieOK cfg.H ms k = true)
    (cur : Meth) (hcur : cur ∈ applicable cfg.H ms k) (hcode : cur.hasCode = true)
    (hsa : strictAbove cfg.H ms k cur = true) (hca : codesAbove cfg.H ms k cur = true) :
    specAgrees (pureLookup (plan cfg ms) (some cur.code, k)) (nextSpec cfg.H ms cur.code k) := by
  have _ := htw  -- as in C02: `tableWF` is not needed by the proof (kept: it is part of the claim's scope)
  unfold keyWF at hk
  rw [Bool.and_eq_true] at hk
  exact next_partial_core cfg ms wf anti hd hst k (List.all_eq_true.mp hk.2) hne hcc htie cur hcur hcode hsa hca

/-- `C07_next_partial` for the call without arguments (resolved like every other key since the `fix:` for
    finding D9; `candComparable` is vacuous for the key `[]`) -/
theorem C07_next_partial_zero_args (cfg : Cfg) (ms : List Meth) (wf : cfg.H.WF) (anti : cfg.H.Antisym)
    (hd : DistinctHandlers ms) (hst : staticTable ms = true) (htw : tableWF ms = true)
    (htie : sigTieOK cfg.H ms [] = true)
    (cur : Meth) (hcur : cur ∈ applicable cfg.H ms []) (hcode : cur.hasCode = true)
    (hsa : strictAbove cfg.H ms [] cur = true) (hca : codesAbove cfg.H ms [] cur = true) :
    specAgrees (pureLookup (plan cfg ms) (some cur.code, [])) (nextSpec cfg.H ms cur.code []) := by
  have _ := htw
  exact next_partial_core_all cfg ms wf anti hd hst [] (fun _ h => by cases h) (candComparable_nil cfg.H ms) htie
    cur hcur hcode hsa hca

end Ovld
