import Ovldverif.Model.Json
import Ovldverif.Model.MultiMap
/-! Decoding / encoding for layer D scenarios (trusted glue). -/
set_option autoImplicit false
open Lean
namespace Ovld

def slotOfJson (a : Array Json) : Except String Slot := do
  match (← jStr a[0]!) with
  | "p" => return .pos (← jNat a[1]!)
  | "k" => return .kw (← jNat a[1]!)
  | s => throw s!"bad slot {s}"

def slotTyOfJson (j : Json) : Except String (Slot × Ty) := do
  let a ← jArr j
  return (← slotOfJson a, ← tyOfJson a[2]!)

def keyOfJson (j : Json) : Except String Key := do
  (← jArr j).toList.mapM slotTyOfJson

def methOfJson (j : Json) : Except String Meth := do
  return {
    id := ← jNat (← jField j "id"),
    code := ← jNat (← jField j "code"),
    params := ← (← jArr (← jField j "params")).toList.mapM slotTyOfJson,
    reqPos := ← jNat (← jField j "reqPos"),
    maxPos := ← jNat (← jField j "maxPos"),
    reqNames := ← (← jArr (← jField j "reqNames")).toList.mapM jNat,
    prio := ← jInt (← jField j "prio"),
    tb := ← jInt (jFieldD j "tb" (Json.num 0)),
    hasCode := true }

def rankOfList {α : Type} [BEq α] (xs : List α) (x : α) : Nat :=
  match xs.findIdx? (· == x) with
  | some i => i
  | none => xs.length

def triOfStr (s : String) : Tri := if s == "y" then .yes else if s == "n" then .no else .raises

/-- `"meta": [tag per class]`, `"chk": [[fn, [params|null], vid, "y"|"n"|"r"], ...]` -/
def chkOfJson (j : Json) : Except String ((Nat → Nat) × (Nat → List (Option Nat) → Nat → Tri)) := do
  let metas ← (← jArr (jFieldD j "meta" (Json.arr #[]))).toList.mapM jNat
  let rows ← (← jArr (jFieldD j "chk" (Json.arr #[]))).toList.mapM (fun r => do
    let a ← jArr r
    let ps ← (← jArr a[1]!).toList.mapM (fun p => if p.isNull then pure none else some <$> jNat p)
    return ((← jNat a[0]!, ps, ← jNat a[2]!), triOfStr (← jStr a[3]!)))
  return (fun c => metas[c]?.getD 0,
          fun fn ps vid => match rows.find? (fun r => r.1 == (fn, ps, vid)) with
            | some r => r.2
            | none => .raises)

def cfgOfJson (j : Json) : Except String Cfg := do
  let H ← hierOfJson (← jField j "hier")
  let tr ← (← jArr (jFieldD j "tyrank" (Json.arr #[]))).toList.mapM tyOfJson
  let hr ← (← jArr (jFieldD j "hrank" (Json.arr #[]))).toList.mapM jNat
  let (metaOf, chk) ← chkOfJson j
  return { H := H, tyRank := fun t => rankOfList tr t, hRank := fun h => rankOfList hr h, metaOf := metaOf, chk := chk }

partial def entryToJson : Entry → Json
  | .meth id => Json.arr #[Json.str "m", toJson id]
  | .dep hs nx => Json.arr #[Json.str "d", toJson hs, entryToJson nx]
  | .noNext => Json.str "noNext"
  | .ambNext ids => Json.arr #[Json.str "ambNext", toJson ids]

def sortNat (xs : List Nat) : List Nat := xs.mergeSort (fun a b => a ≤ b)

def resToJson : Res Entry (List Nat) → Json
  | .ok e => Json.arr #[Json.str "ok", entryToJson e]
  | .amb ids => Json.arr #[Json.str "amb", toJson (sortNat ids)]
  | .noMethod => Json.arr #[Json.str "nomethod"]
  | .failed => Json.arr #[Json.str "cycle"]
  | .keyError => Json.arr #[Json.str "keyerror"]

end Ovld
