import Ovldverif.Props.C13
import Ovldverif.Props.C12
import Ovldverif.Lemmas.Fuel
/-!
# C13 / C12 — parametrised generics

"The subtype test … is argument-wise covariant on parametrised generics" (C13) and "a parametrised generic …
compares argument-wise" (C12), as theorems about the model of `mro.subclasscheck` L129-152 and of the generic-alias
branch of `mro.typeorder` L67-93, for argument lists of ANY length and arguments of ANY modelled type (the
arguments are compared by the same two functions, recursively).
-/
set_option autoImplicit false
namespace Ovld

variable (H : Hier)

theorem Ty.size_le_sizeL : ∀ (as : List Ty) (a : Ty), a ∈ as → a.size ≤ Ty.sizeL as := by
  intro as
  induction as with
  | nil => intro a h; cases h
  | cons x xs ih =>
    intro a h
    simp only [Ty.sizeL]
    rcases List.mem_cons.1 h with e | e
    · subst e; omega
    · have := ih a e; omega

theorem gen_beq_false {o1 o2 : Nat} {a1 a2 : List Ty} (hne : Ty.gen o1 a1 ≠ Ty.gen o2 a2) :
    Ty.beq (.gen o1 a1) (.gen o2 a2) = false := by
  cases e : Ty.beq (.gen o1 a1) (.gen o2 a2)
  · rfl
  · exact absurd ((Ty.beq_iff _ _).1 e) hne

/-- **the subtype test on two parametrised generics is the subclass test on the origins and the subtype test
    argument by argument** (same number of arguments) -/
theorem C13_generic_covariant (o1 o2 : Nat) (a1 a2 : List Ty) (hne : Ty.gen o1 a1 ≠ Ty.gen o2 a2) :
    subclasscheck H (.gen o1 a1) (.gen o2 a2) =
      (H.sub o1 o2 && a1.length == a2.length && (zipWithT (subclasscheck H) a1 a2).all id) := by
  unfold subclasscheck
  rw [subc, gen_beq_false hne]
  simp only [subcNe, Bool.false_eq_true, if_false]
  congr 2
  apply zipWithT_congr
  intro a ha b hb
  have h1 := Ty.size_le_sizeL a1 a ha
  have h2 := Ty.size_le_sizeL a2 b hb
  rw [subc_fuel]
  · rfl
  · simp only [Ty.size]; omega

/-- pointwise relation of two argument lists, as a proposition -/
def ArgsLe : List Ty → List Ty → Prop
  | [], [] => True
  | a :: as, b :: bs => subclasscheck H a b = true ∧ ArgsLe as bs
  | _, _ => False

theorem argsLe_iff : ∀ (a1 a2 : List Ty),
    ArgsLe H a1 a2 ↔ (a1.length = a2.length ∧ (zipWithT (subclasscheck H) a1 a2).all id = true) := by
  intro a1
  induction a1 with
  | nil => intro a2; cases a2 <;> simp [ArgsLe, zipWithT]
  | cons a as ih =>
    intro a2
    cases a2 with
    | nil => simp [ArgsLe]
    | cons b bs =>
      simp only [ArgsLe, zipWithT, List.length_cons, List.all_cons, Bool.and_eq_true, id]
      rw [ih bs]
      constructor
      · rintro ⟨h1, h2, h3⟩; exact ⟨by omega, h1, h3⟩
      · rintro ⟨h1, h2, h3⟩; exact ⟨h2, by omega, h3⟩

/-- covariance, as an equivalence: `G1[a…] ≤ G2[b…]` exactly when `issubclass(G1, G2)` and every `aᵢ ≤ bᵢ` -/
theorem C13_generic_iff (o1 o2 : Nat) (a1 a2 : List Ty) (hne : Ty.gen o1 a1 ≠ Ty.gen o2 a2) :
    subclasscheck H (.gen o1 a1) (.gen o2 a2) = true ↔ (H.sub o1 o2 = true ∧ ArgsLe H a1 a2) := by
  rw [C13_generic_covariant H o1 o2 a1 a2 hne, argsLe_iff]
  simp only [Bool.and_eq_true, beq_iff_eq]
  constructor
  · rintro ⟨⟨h1, h2⟩, h3⟩; exact ⟨h1, h2, h3⟩
  · rintro ⟨h1, h2, h3⟩; exact ⟨⟨h1, h2⟩, h3⟩

theorem argsLe_refl : ∀ (as : List Ty), ArgsLe H as as
  | [] => trivial
  | a :: as => ⟨C13_refl H a, argsLe_refl as⟩

/-- **monotone in every argument and in the origin** (the equal pair included) -/
theorem C13_generic_mono (o1 o2 : Nat) (a1 a2 : List Ty) (ho : H.sub o1 o2 = true)
    (ha : ArgsLe H a1 a2) : subclasscheck H (.gen o1 a1) (.gen o2 a2) = true := by
  by_cases hne : Ty.gen o1 a1 = Ty.gen o2 a2
  · rw [hne]; exact C13_refl H _
  · exact (C13_generic_iff H o1 o2 a1 a2 hne).2 ⟨ho, ha⟩

theorem argsLe_trans : ∀ (a1 a2 a3 : List Ty),
    (∀ x ∈ a1, ∀ y ∈ a2, ∀ z ∈ a3, subclasscheck H x y = true → subclasscheck H y z = true →
      subclasscheck H x z = true) →
    ArgsLe H a1 a2 → ArgsLe H a2 a3 → ArgsLe H a1 a3 := by
  intro a1
  induction a1 with
  | nil =>
    intro a2 a3 _ h12 h23
    cases a2 with
    | nil => exact h23
    | cons _ _ => exact absurd h12 (by simp [ArgsLe])
  | cons x xs ih =>
    intro a2 a3 htr h12 h23
    cases a2 with
    | nil => exact absurd h12 (by simp [ArgsLe])
    | cons y ys =>
      cases a3 with
      | nil => exact absurd h23 (by simp [ArgsLe])
      | cons z zs =>
        refine ⟨htr x (by simp) y (by simp) z (by simp) h12.1 h23.1, ?_⟩
        exact ih ys zs (fun x' hx y' hy z' hz => htr x' (by simp [hx]) y' (by simp [hy]) z' (by simp [hz]))
          h12.2 h23.2

/-- **transitive on generics whenever it is transitive on their arguments** (any depth of nesting: the hypothesis
    is about the arguments only) -/
theorem C13_generic_trans (wf : H.WF) (o1 o2 o3 : Nat) (a1 a2 a3 : List Ty)
    (htr : ∀ x ∈ a1, ∀ y ∈ a2, ∀ z ∈ a3, subclasscheck H x y = true → subclasscheck H y z = true →
      subclasscheck H x z = true)
    (h12 : subclasscheck H (.gen o1 a1) (.gen o2 a2) = true)
    (h23 : subclasscheck H (.gen o2 a2) (.gen o3 a3) = true) :
    subclasscheck H (.gen o1 a1) (.gen o3 a3) = true := by
  by_cases e12 : Ty.gen o1 a1 = Ty.gen o2 a2
  · rw [e12]; exact h23
  by_cases e23 : Ty.gen o2 a2 = Ty.gen o3 a3
  · rw [← e23]; exact h12
  obtain ⟨s12, l12⟩ := (C13_generic_iff H o1 o2 a1 a2 e12).1 h12
  obtain ⟨s23, l23⟩ := (C13_generic_iff H o2 o3 a2 a3 e23).1 h23
  exact C13_generic_mono H o1 o3 a1 a3 (wf.trans o1 o2 o3 s12 s23) (argsLe_trans H a1 a2 a3 htr l12 l23)

/-- in particular on generics over plain classes (`list[A]`, `dict[K, V]`, … of any number of arguments) -/
theorem C13_generic_cls_trans (wf : H.WF) (o1 o2 o3 : Nat) (c1 c2 c3 : List Nat)
    (h12 : subclasscheck H (.gen o1 (c1.map .cls)) (.gen o2 (c2.map .cls)) = true)
    (h23 : subclasscheck H (.gen o2 (c2.map .cls)) (.gen o3 (c3.map .cls)) = true) :
    subclasscheck H (.gen o1 (c1.map .cls)) (.gen o3 (c3.map .cls)) = true := by
  refine C13_generic_trans H wf o1 o2 o3 _ _ _ ?_ h12 h23
  intro x hx y hy z hz hxy hyz
  obtain ⟨a, _, rfl⟩ := List.mem_map.1 hx
  obtain ⟨b, _, rfl⟩ := List.mem_map.1 hy
  obtain ⟨c, _, rfl⟩ := List.mem_map.1 hz
  exact C13_cls_trans H wf a b c hxy hyz

/-- a different number of arguments never matches -/
theorem C13_generic_arity (o1 o2 : Nat) (a1 a2 : List Ty) (hl : a1.length ≠ a2.length) :
    subclasscheck H (.gen o1 a1) (.gen o2 a2) = false := by
  have hne : Ty.gen o1 a1 ≠ Ty.gen o2 a2 := by
    intro e; injection e with _ e2; exact hl (by rw [e2])
  rw [C13_generic_covariant H o1 o2 a1 a2 hne]
  simp [hl]

/-! ### C12: two generics of one origin compare argument-wise -/

/-- **same origin, same number of arguments (at least one): the order is `Order.merge` of the orders of the
    arguments** -/
theorem C12_generic_argwise (o : Nat) (a1 a2 : List Ty) (h1 : a1 ≠ []) (hl : a1.length = a2.length)
    (hne : a1 ≠ a2) :
    typeorder H (.gen o a1) (.gen o a2) = TOrd.merge (zipWithT (typeorder H) a1 a2) := by
  have h2 : a2 ≠ [] := by
    intro e; subst e; cases a1 with
    | nil => exact h1 rfl
    | cons _ _ => simp at hl
  have hne' : Ty.gen o a1 ≠ Ty.gen o a2 := by
    intro e; injection e with _ e2; exact hne e2
  unfold typeorder
  rw [tord, gen_beq_false hne']
  simp only [hook, tstruct, Bool.false_eq_true, if_false]
  have e : tord H (Ty.size (.gen o a1) + Ty.size (.gen o a2)) (Ty.cls o) (Ty.cls o) = .same := by
    have : Ty.size (.gen o a1) + Ty.size (.gen o a2) = (Ty.size (.gen o a1) + Ty.size (.gen o a2) - 1) + 1 := by
      simp only [Ty.size]; omega
    rw [this]; exact tord_self H _ _
  have n1 : a1.isEmpty = false := by cases a1 <;> simp_all
  have n2 : a2.isEmpty = false := by cases a2 <;> simp_all
  simp only [e, n1, n2, hl]
  simp only [bne_self_eq_false, Bool.false_eq_true, if_false, Bool.not_false, Bool.and_false]
  congr 1
  apply zipWithT_congr
  intro a ha b hb
  have s1 := Ty.size_le_sizeL a1 a ha
  have s2 := Ty.size_le_sizeL a2 b hb
  rw [tord_fuel]
  · rfl
  · simp only [Ty.size]; omega

/-- a different number of arguments: unrelated -/
theorem C12_generic_arity (o : Nat) (a1 a2 : List Ty) (h1 : a1 ≠ []) (h2 : a2 ≠ [])
    (hl : a1.length ≠ a2.length) :
    typeorder H (.gen o a1) (.gen o a2) = .none := by
  have hne' : Ty.gen o a1 ≠ Ty.gen o a2 := by
    intro e; injection e with _ e2; exact hl (by rw [e2])
  unfold typeorder
  rw [tord, gen_beq_false hne']
  simp only [hook, tstruct, Bool.false_eq_true, if_false]
  have e : tord H (Ty.size (.gen o a1) + Ty.size (.gen o a2)) (Ty.cls o) (Ty.cls o) = .same := by
    have : Ty.size (.gen o a1) + Ty.size (.gen o a2) = (Ty.size (.gen o a1) + Ty.size (.gen o a2) - 1) + 1 := by
      simp only [Ty.size]; omega
    rw [this]; exact tord_self H _ _
  have n1 : a1.isEmpty = false := by cases a1 <;> simp_all
  have n2 : a2.isEmpty = false := by cases a2 <;> simp_all
  simp [e, n1, n2, hl]

/-- non-vacuity: `G[bool-like 2, 0] ≤ G[1, 0]` with class 2 below class 1, and the order says `less` -/
example :
    let Hx : Hier := { sub := fun a b => a == b || b == 0 || (a == 2 && b == 1), hasAttr := fun _ _ => false,
                       pred := fun _ _ => false }
    subclasscheck Hx (.gen 5 [.cls 2, .cls 0]) (.gen 5 [.cls 1, .cls 0]) = true ∧
      subclasscheck Hx (.gen 5 [.cls 1, .cls 0]) (.gen 5 [.cls 2, .cls 0]) = false ∧
      typeorder Hx (.gen 5 [.cls 2, .cls 0]) (.gen 5 [.cls 1, .cls 0]) = .less ∧
      typeorder Hx (.gen 5 [.cls 2, .cls 1]) (.gen 5 [.cls 1, .cls 2]) = .none := by
  decide

end Ovld
