"""`./check <prop> --replay <file>`: re-evaluate a recorded violation on /repo's current working tree.

A replay file holds either a witness (`kind` + the scenario: replayed directly on the real code), or a violation
found by a stream worker together with the deterministic batch (`_replay`: module, function, payload) that
produced it: the batch is run again and the same law is looked for.  Exit 1 + a VIOLATION line when the recorded
failure still occurs, exit 0 when it does not."""

import importlib
import json


def _same(a, b):
    keys = ("law", "op_index", "op", "layer", "what")
    return all(a.get(k) == b.get(k) for k in keys if k in a)


def run(prop, path):
    data = json.load(open(path))
    w = data.get("witness") if isinstance(data.get("witness"), dict) else None
    if "kind" in data and "_replay" not in data:
        w = data
    if w is not None and "kind" in w:
        import witness

        failing = witness.replay(w)
        print(("still fails: " if failing else "no longer fails: ") + str(data.get("law", w.get("kind"))))
        if failing:
            print(f"VIOLATION property={prop} replay={path}")
        return 1 if failing else 0
    how = data.get("_replay") or (data.get("smallest") or {}).get("_replay")
    if not how:
        print("replay file carries neither a witness nor a batch; run the check itself with VERIF_SEED set to the seed in the file name")
        return 2
    mod = importlib.import_module(how["module"])
    out = getattr(mod, how["fn"])(tuple(how["payload"]))
    target = data.get("smallest", data)
    found = []
    if "law" in target:
        pools = [out.get("viol", [])] + [oc.get("viol", []) for name, oc in out.get("oracles", {}).items() if name == prop or prop in ("C10", "C11")]
        for pool in pools:
            found += [v for v in pool if _same(target, v)]
        if not found:
            # the batch is deterministic, but the three violations kept per oracle may differ: any violation of the
            # same law counts
            for pool in pools:
                found += [v for v in pool if v.get("law") == target.get("law")]
    else:
        found = [c for c in out.get("corr", []) if isinstance(c, dict) and c.get("layer") == target.get("layer")]
    if found:
        print("still fails:", json.dumps(found[0], default=str)[:600])
        tail = "" if "law" in target else " no-failing-input-found"
        print(f"VIOLATION property={prop} replay={path}{tail}")
        return 1
    print("no longer fails")
    return 0
