"""Generator of function-level scenarios (one Ovld; general signatures; bodies that delegate)."""

import json
import random

from typegen import TypeGen
from world import NBUILTIN, make_world

KW_BASE = 10


def subclasses_of(w, tables, tdesc):
    """user classes whose instances the annotation accepts (by the real subclasscheck)"""
    from ovld.mro import subclasscheck

    t = w.ty(tdesc)
    out = []
    for c in range(NBUILTIN, w.n):
        try:
            if subclasscheck(w.classes[c], t):
                out.append(c)
        except Exception:
            pass
    return out


def gen_fn_scenario(rng: random.Random, static_only=True, simple_sigs=False, bodies=True, kinds=None, nuser=None, is_method=None, type_args=False):
    # (type-valued arguments: one world in three is rich in generic classes deriving from one another, so that aliases
    # of related origins meet: type[Box[A]] against Crate[int])
    if type_args and rng.random() < 0.33:
        w = make_world(rng, nuser=nuser, generics=0.45)
    elif not type_args and rng.random() < 0.12:
        w = make_world(rng, nuser=max(3, nuser or rng.randint(3, 6)), twins=True)
    else:
        w = make_world(rng, nuser=nuser)
    if kinds is None:
        kinds = ["cls"] * 6 if static_only else ["cls"] * 6 + ["union", "inter", "exactly", "strict", "hasm", "pred"]
    g = TypeGen(w, rng, kinds=kinds)
    npos = rng.randint(1, 3)
    uniform = rng.random() < 0.6
    posonly_all = rng.random() < 0.2
    kwnames = [KW_BASE, KW_BASE + 1] if ((not simple_sigs or type_args) and rng.random() < 0.35) else []
    nmeth = rng.randint(1, 6)
    pool_types = [g.gen(1) for _ in range(rng.randint(2, 5))]
    if rng.random() < 0.6:
        tb = w.tables()["sub"]
        focus = max(range(NBUILTIN, w.n), key=lambda c: (sum(tb[c]), rng.random()))
        anc = [c for c in range(w.n) if tb[focus][c] and c != 1]
        rng.shuffle(anc)
        pool_types = [["cls", c] for c in anc[: rng.randint(2, 6)]] + pool_types[:1]
    # twin protocols (two runtime protocols requiring the same method: distinct classes that are subclasses of each
    # other): when the world has a pair, annotate with both — neither is more specific than the other
    protos = {}
    for ui, u in enumerate(w.desc["user"]):
        if u["kind"] == "proto":
            protos.setdefault(u.get("proto_attr"), []).append(NBUILTIN + ui)
    twins = [v for v in protos.values() if len(v) >= 2]
    if twins and rng.random() < 0.7:
        tw = rng.choice(twins)
        pool_types = [["cls", tw[0]], ["cls", tw[1]]] + pool_types[:2]
    ismeth = (rng.random() < 0.2) if is_method is None else is_method
    type_vals = []
    plain_pos, plain_pool = None, []
    if type_args:
        # C14: type-valued arguments (classes, parametrised generics, nested) and type[...] annotations
        from world import C_INT, C_LIST, C_OBJECT, C_TUPLE, C_TYPE

        user = list(range(NBUILTIN, w.n))
        gens = [NBUILTIN + i for i, u in enumerate(w.desc["user"]) if u["kind"] == "generic"]

        def tval(depth):
            r = rng.random()
            if depth <= 0 or r < 0.55:
                return ["cls", rng.choice(user + [C_INT, C_OBJECT])]
            if r < 0.7:
                return ["gen", C_LIST, [tval(depth - 1)]]
            if r < 0.85 or not gens:
                # tuple aliases: same origin, different numbers of arguments
                return ["gen", C_TUPLE, [tval(depth - 1) for _ in range(rng.choice([1, 2, 2, 3]))]]
            return ["gen", rng.choice(gens), [tval(depth - 1)]]

        type_vals = []
        for _ in range(rng.randint(3, 7)):
            t = tval(2)
            if t not in type_vals:
                type_vals.append(t)
        anns = [["gen", C_TYPE, [rng.choice(type_vals + [["cls", C_OBJECT]])]] for _ in range(rng.randint(2, 4))]
        anns += [["gen", C_TYPE, [["cls", c]]] for c in rng.sample(user, min(2, len(user)))]
        plain_pool = [["cls", C_OBJECT], ["cls", C_TYPE], ["cls", C_OBJECT]] + [t for t in pool_types if t[0] == "cls"][:2]
        pool_types = anns + pool_types[: rng.randint(1, 2)]
        # now and then one position carries plain classes only although classes are passed there: the entry point
        # keys it by type(x) (the metaclass), and so must every rewritten recurse / call_next site
        plain_pos = rng.randrange(npos) if rng.random() < 0.5 else None
    # type-valued arguments, now and then: the leading position is strictly positional (the methods name it
    # differently) AND optional in some method, its annotations are plain classes, and the type[...] annotations
    # sit on the uniformly named positions after it — the entry point numbers the named positions after ALL the
    # strictly positional ones, required or optional
    lead_strict_opt = type_args and rng.random() < 0.2
    if lead_strict_opt:
        npos = max(npos, 2)
        plain_pos = 0
    defs = []
    respelled = []
    # instances of every user class (two of some, so that identity matters)
    args = []
    for c in range(NBUILTIN, w.n):
        args.append({"vid": len(args), "kind": "inst", "c": c})
        if rng.random() < 0.3:
            args.append({"vid": len(args), "kind": "inst", "c": c})
    if not args:
        args.append({"vid": 0, "kind": "inst", "c": 0})
    for t in type_vals:
        args.append({"vid": len(args), "kind": "type", "t": t})
    for i in range(nmeth):
        if simple_sigs:
            maxpos, reqpos = npos, npos
        else:
            maxpos = rng.choice([npos] * 4 + list(range(0, npos + 1)))
            reqpos = maxpos if rng.random() < 0.6 else rng.randint(0, maxpos)
        if lead_strict_opt:
            maxpos = npos
            reqpos = 0 if i % 2 == 1 else rng.choice([0, npos, npos])
        npo = maxpos if posonly_all else (rng.randint(0, maxpos) if rng.random() < 0.25 else 0)
        params = []
        for j in range(maxpos):
            name = j if uniform else (j + 3 * rng.randint(0, 1))
            if lead_strict_opt:
                name = (3 * (i % 2)) if j == 0 else j
            params.append({"name": name, "kind": "po" if j < npo else "pk", "req": j < reqpos, "ty": rng.choice(plain_pool if (type_args and j == plain_pos) else pool_types)})
        # declaration order of the keyword-only parameters varies from method to method (and is not alphabetical)
        for n in (kwnames if rng.random() < 0.5 else kwnames[::-1]):
            if rng.random() < 0.6:
                params.append({"name": n, "kind": "ko", "req": rng.random() < 0.5, "ty": rng.choice(pool_types)})
        if defs and rng.random() < 0.15:
            params = json.loads(json.dumps(rng.choice(defs)["params"]))
            # the same signature written with another parameter name, or with a positional-only parameter made
            # nameable (names and positional-only-ness are not part of a signature's identity: the new definition
            # replaces the old one, and the entry point must follow the definitions that are registered NOW)
            pos_ps = [p for p in params if p["kind"] != "ko"]
            if pos_ps and not lead_strict_opt and rng.random() < 0.5:
                respelled.append(i)
                q = rng.choice(pos_ps)
                if rng.random() < 0.6:
                    q["name"] = q["name"] + 3 if q["name"] < 3 else q["name"] - 3
                else:
                    # (positional-only parameters come first: the change carries over to the ones before / after)
                    qi = pos_ps.index(q)
                    if q["kind"] == "po":
                        for x in pos_ps[qi:]:
                            x["kind"] = "pk"
                    else:
                        for x in pos_ps[: qi + 1]:
                            x["kind"] = "po"
        body = ["ret"]
        if bodies and rng.random() < 0.45:
            kind = rng.choice(["callNext", "callNext", "callNext", "recurse", "next"])
            if ismeth and kind == "next":
                kind = "callNext"  # f.next from a method with `self` is outside the documented use (functions only)
            # only required positionals are forwarded (an omitted optional one would forward the default object)
            npp = len([p for p in params if p["kind"] != "ko" and p["req"]])
            if kind == "callNext" and rng.random() < 0.6 and npp:
                srcs = [["p", j] for j in range(npp)]
            else:
                n = rng.choice([npos] * 3 + [npp, max(0, npos - 1)])
                srcs = [(["p", j] if (j < npp and rng.random() < 0.5) else ["c", rng.randrange(len(args))]) for j in range(n)]
            body = [kind, srcs]
        defs.append({"id": i, "code": 100 + i, "isMethod": ismeth, "prio": rng.choice([0, 0, 0, 0, 1, -1, 2]), "params": params, "body": body})
    tables = None
    ops = []
    late = [i for i in range(nmeth) if rng.random() < 0.2]
    if type_args and rng.random() < 0.5:
        # the first type[...] annotation of a position arrives after the function has been used: the per-position
        # choice between type() and subtler_type() has to change with the rebuild
        from world import C_TYPE as _CT

        typed = [i for i, d in enumerate(defs) if any(p["ty"][0] == "gen" and p["ty"][1] == _CT for p in d["params"])]
        if typed and len(typed) < nmeth:
            late = typed
    for i in range(nmeth):
        if i not in late:
            ops.append(["reg", i])
    if not ops:
        ops.append(["reg", late.pop(0)])
    registered = [op[1] for op in ops]
    ncalls = rng.randint(3, 12)
    fit_cache = {}

    def fit(tdesc):
        k = json.dumps(tdesc)
        if k not in fit_cache:
            cs = subclasses_of(w, tables, tdesc)
            fit_cache[k] = [a["vid"] for a in args if a["kind"] == "inst" and a["c"] in cs]
            if type_vals:
                from ovld.mro import subclasscheck

                ann = w.ty(tdesc)
                for a in args:
                    if a["kind"] == "type":
                        try:
                            if subclasscheck(type[w.ty(a["t"])], ann):
                                fit_cache[k].append(a["vid"])
                        except Exception:  # noqa
                            pass
        return fit_cache[k]

    for _ in range(ncalls):
        r = rng.random()
        if late and r < 0.15:
            i = late.pop(0)
            ops.append(["reg", i])
            registered.append(i)
            continue
        if registered and r < 0.22 and len(registered) > 1:
            i = rng.choice(registered)
            registered.remove(i)
            ops.append(["unreg", i])
            continue
        if r < 0.27 and defs:
            # re-register an already registered definition object or a fresh duplicate signature
            i = rng.randrange(nmeth)
            ops.append(["reg", i])
            if i not in registered:
                registered.append(i)
            continue
        prev_calls = [o for o in ops if o[0] == "call"]
        if prev_calls and r > 0.75:
            ops.append(json.loads(json.dumps(rng.choice(prev_calls))))  # repeat an earlier call (C04, C20)
            continue
        m = defs[rng.choice(registered)] if registered else rng.choice(defs)
        pp = [p for p in m["params"] if p["kind"] != "ko"]
        reqn = len([p for p in pp if p["req"]])
        n = rng.choice([len(pp)] * 4 + [reqn] * 3 + list(range(0, npos + 1)))
        pos = []
        kw = []
        bykw_from = n
        if rng.random() < 0.25 and n > 0:
            bykw_from = rng.randint(0, n)  # positions >= this are passed by keyword when they have a name
        for j in range(n):
            cands = fit(pp[j]["ty"]) if (j < len(pp) and rng.random() < 0.9) else []
            v = rng.choice(cands) if cands else rng.randrange(len(args))
            if j >= bykw_from and j < len(pp) and pp[j]["kind"] == "pk":
                kw.append([pp[j]["name"], v])
            elif j >= bykw_from:
                break
            else:
                pos.append(v)
        # a gap: an optional named positional is omitted and a later optional one is given by keyword (the library
        # documents several optional positionals as positional-only: such a call must be rejected, never served
        # with the keyword dropped)
        opt_named = [j for j, p in enumerate(pp) if not p["req"] and p["kind"] == "pk"]
        if len(opt_named) >= 2 and rng.random() < 0.3:
            first, later = opt_named[0], rng.choice(opt_named[1:])
            pos = [rng.choice(fit(pp[j]["ty"]) or [rng.randrange(len(args))]) for j in range(first)]
            kw = [[pp[later]["name"], rng.choice(fit(pp[later]["ty"]) or [rng.randrange(len(args))])]]
        for p in m["params"]:
            if p["kind"] == "ko" and (p["req"] or rng.random() < 0.5) and rng.random() < 0.9:
                cands = fit(p["ty"]) if rng.random() < 0.9 else []
                kw.append([p["name"], rng.choice(cands) if cands else rng.randrange(len(args))])
        if rng.random() < 0.05:
            kw.append([rng.choice([0, 1, KW_BASE, KW_BASE + 1, 7]), rng.randrange(len(args))])
        seen = set()
        kw = [e for e in kw if not (e[0] in seen or seen.add(e[0]))]
        ops.append(["call", pos, kw])
    # a respelled signature: make sure both spellings get registered, remove the older one now and then, and call
    # with every positional that has a name given by keyword, under the newer and under the older name
    for i in respelled[:1]:
        twin = next((d for d in defs[:i] if [(p["kind"] == "ko", p["ty"], p["req"]) for p in d["params"]] == [(p["kind"] == "ko", p["ty"], p["req"]) for p in defs[i]["params"]]), None)
        if twin is None:
            continue
        ops += [["reg", twin["id"]], ["reg", i]]
        if rng.random() < 0.6:
            ops.append(["unreg", twin["id"]])
        for d in (defs[i], twin, defs[i]):
            pp = [p for p in d["params"] if p["kind"] != "ko"]
            nreq = len([p for p in pp if p["req"]])
            vals = [rng.choice(fit(p["ty"]) or [rng.randrange(len(args))]) for p in pp[:nreq]]
            cut = rng.randint(0, max(0, nreq - 1))
            pos = vals[:cut]
            kw = [[p["name"], v] for p, v in zip(pp[cut:nreq], vals[cut:]) if p["kind"] == "pk"]
            if len(kw) == nreq - cut:
                kw += [[p["name"], rng.choice(fit(p["ty"]) or [rng.randrange(len(args))])] for p in d["params"] if p["kind"] == "ko" and p["req"]]
                ops.append(["call", pos, kw])
    alltys = []
    for d in defs:
        for p in d["params"]:
            if p["ty"] not in alltys:
                alltys.append(p["ty"])
    tyrank = list(alltys)
    rng.shuffle(tyrank)
    hrank = list(range(nmeth))
    rng.shuffle(hrank)
    sc = {"defs": defs, "args": args, "ops": ops, "tyrank_desc": tyrank, "hrank": hrank, "allowReplacement": True,
          # parameter names that collide with the names the generated entry point uses itself, now and then
          "odd_names": rng.random() < 0.2}
    return w, sc


def to_model(w, sc):
    def arg(a):
        if a["kind"] == "inst":
            t = ["cls", a["c"]]
            return {"vid": a["vid"], "cls": t, "subtler": t}
        if a["kind"] == "type":
            from world import C_OBJECT, C_TYPE

            # type(value): `type` (or a metaclass, which has the same row in the issubclass table) for a class, an
            # alias class (only below object) for a parametrised generic
            c = ["cls", C_TYPE if a["t"][0] == "cls" else C_OBJECT]
            return {"vid": a["vid"], "cls": c, "subtler": ["gen", C_TYPE, [w.tyj(a["t"])]]}
        raise ValueError(a)

    def ann(t):
        # an annotation goes through normalize_type: bare `type` is type[object] (layer B, C14_bare_type)
        from world import C_TYPE

        return ["gen", C_TYPE, [["cls", 0]]] if t == ["cls", C_TYPE] else w.tyj(t)

    defs = []
    for d in sc["defs"]:
        defs.append({**d, "params": [{**p, "ty": ann(p["ty"])} for p in d["params"]]})
    return {
        "layer": "F",
        "hier": w.tables(),
        "tyrank": [w.tyj(t) for t in sc["tyrank_desc"]],
        "hrank": sc["hrank"],
        "defs": defs,
        "args": [arg(a) for a in sc["args"]],
        "ops": sc["ops"],
        "allowReplacement": sc.get("allowReplacement", True),
    }
