import Ovldverif.Spec.DepSpec
/-!
# C10 / C11 — value-dependent methods run exactly when their condition holds, whatever code is generated

`dispatch` is the model of the generated `__DEPENDENT_DISPATCH__` (three possible bodies: lookup table on a
Literal key, first match, counting); `rankSpec` is the documented meaning.
-/
set_option autoImplicit false
namespace Ovld

/-- **strategy independence / correctness**: whichever of the three bodies the generator emits, the dispatcher
    of a rank runs exactly the unique handler all of whose positions accept the values, falls through when
    there is none, and raises the ambiguity when there are several -/
theorem C10_strategy_correct (W : DWorld) (k : List Slot) (hs : List DHandler) (args : List (Slot × DVal))
    (ok : RankOK W k hs args) :
    dispatch W k hs args = rankSpec W k hs args := by
  sorry

/-- a Literal's generated check, inside its bound, is membership of the value among the literal's values -/
theorem C11_literal (W : DWorld) (keys : List Nat) (b : Ty) (v : DVal) (hb : isinstanceOf W b v = .yes) :
    genCheck W (.lit keys b) v = isinstanceOf W (.lit keys b) v ∧
    (isinstanceOf W (.lit keys b) v = .yes ↔ v.eq ∈ keys) := by
  sorry

/-- a user condition / built-in `FuncDependentType` check, inside its bound, is the condition itself -/
theorem C11_fdep (W : DWorld) (fn : Nat) (ps : List (Option Nat)) (b : Ty) (v : DVal)
    (hb : isinstanceOf W b v = .yes) :
    genCheck W (.fdep fn ps b) v = isinstanceOf W (.fdep fn ps b) v := by
  sorry

/-- inside a Union / Intersection every value-dependent member with a class bound is checked *within its
    bound* (the guard of the `fix:` for finding D7): the member's parenthesised code is exactly `isinstance` -/
theorem C11_member_guarded (W : DWorld) (t : Ty) (c : Nat) (v : DVal)
    (ht : (∃ keys, t = .lit keys (.cls c)) ∨ (∃ fn ps, t = .fdep fn ps (.cls c))) :
    memberCheck W (t.size + 1) t v = isinstanceOf W t v := by
  sorry

/-- the user's condition is consulted by a guarded member only for values inside the bound -/
theorem C10_guard (W : DWorld) (fn : Nat) (ps : List (Option Nat)) (c : Nat) (v : DVal)
    (hout : W.H.sub v.cls c = false) :
    memberCheck W ((Ty.fdep fn ps (.cls c)).size + 1) (.fdep fn ps (.cls c)) v = .no := by
  sorry

end Ovld
