"""Scenario worlds: a generated class hierarchy, realised as live Python classes, plus builders that
turn type descriptors (the JSON the Lean driver reads) into the real ovld / typing objects.

The descriptor is generated first; the live objects are built from it; the tables the model needs
(`sub`, `attr`, `pred`) are re-extracted from the live classes, never assumed.
"""

import abc
import random
import typing

NBUILTIN = 9
BUILTINS = [object, type, int, bool, str, type(None), tuple, list, dict]
BUILTIN_NAMES = ["object", "type", "int", "bool", "str", "NoneType", "tuple", "list", "dict"]
C_OBJECT, C_TYPE, C_INT, C_BOOL, C_STR, C_NONE, C_TUPLE, C_LIST, C_DICT = range(9)
NATTR = 3
NPRED = 3

# value pool for Literal / value corpus; eq key = index of the first pool element equal to it
VALUE_POOL = [0, 1, 2, True, False, "a", "b", "", None, (), (1,), (1, "a"), ("a", 1), [], [1], ["a"], {}, {"a": 1}, {1: "a"}, 3, "ab", "ba", (1, 2), [1, "a"]]


def eq_key(i):
    v = VALUE_POOL[i]
    for j, w in enumerate(VALUE_POOL):
        try:
            if type(w) in (list, dict) or type(v) in (list, dict):
                same = type(w) is type(v) and w == v
            else:
                same = w == v
        except Exception:
            same = False
        if same:
            return j
    return i


_ext_uid = [0]
_ext_dirs = []


def _cleanup_ext():
    import shutil

    for d in _ext_dirs:
        shutil.rmtree(d, ignore_errors=True)


def release_ext_package():
    """remove the most recent package directory (and its sys.path entry) once its modules are imported"""
    import shutil
    import sys

    if _ext_dirs:
        d = _ext_dirs.pop()
        shutil.rmtree(d, ignore_errors=True)
        try:
            sys.path.remove(d)
        except ValueError:
            pass


def make_ext_package(specs):
    """write a fresh package with modules at depth 1 and depth 3 holding the `ext` classes; returns
    (package name, [dotted reference per class]) WITHOUT importing it"""
    import atexit
    import os
    import sys
    import tempfile

    if not _ext_uid[0]:
        atexit.register(_cleanup_ext)
    _ext_uid[0] += 1
    root = tempfile.mkdtemp(prefix="ovldverif_ext_")
    _ext_dirs.append(root)
    pkg = f"vx{os.getpid()}_{_ext_uid[0]}"
    os.makedirs(os.path.join(root, pkg, "sub", "deep"))
    for d in (pkg, os.path.join(pkg, "sub"), os.path.join(pkg, "sub", "deep")):
        open(os.path.join(root, d, "__init__.py"), "w").close()
    shallow, deep, refs = [], ["from ...m1 import *"], []
    for i, sp in enumerate(specs):
        base = f"E{sp['base']}" if sp.get("base") is not None else "object"
        line = f"class E{i}({base}):\n    pass\n"
        if sp["mod"] == "shallow":
            shallow.append(line)
            refs.append(f"{pkg}.m1.E{i}")
        else:
            deep.append(line)
            refs.append(f"{pkg}.sub.deep.m3.E{i}")
    open(os.path.join(root, pkg, "m1.py"), "w").write("\n".join(shallow) + "\n")
    open(os.path.join(root, pkg, "sub", "deep", "m3.py"), "w").write("\n".join(deep) + "\n")
    sys.path.insert(0, root)
    return pkg, refs


class World:
    """desc = {"n": total classes, "user": [ {bases:[ids], kind:"plain|abc|proto|generic", attrs:[m], virtual:[ids]} ... ],
    "preds": [[class ids] ...]}"""

    def __init__(self, desc):
        self.desc = desc
        self.classes = list(BUILTINS)
        self.names = list(BUILTIN_NAMES)
        self._memo = {}
        for i, u in enumerate(desc["user"]):
            cid = NBUILTIN + i
            name = f"K{cid}"
            bases = tuple(self.classes[b] for b in u["bases"])
            ns = {f"m{m}": (lambda self: None) for m in u.get("attrs", [])}
            kind = u.get("kind", "plain")
            if kind == "abc":
                cls = abc.ABCMeta(name, bases or (), ns)
            elif kind == "proto":
                m = u["proto_attr"]
                ns2 = {f"m{m}": (lambda self: None), "__module__": __name__}
                cls = typing.runtime_checkable(type(typing.Protocol)(name, (typing.Protocol,), ns2))
            elif kind == "generic":
                T = typing.TypeVar("T")
                gb = tuple(b[T] for b in bases) or (typing.Generic[T],)
                import types as _types

                cls = _types.new_class(name, gb, {}, lambda d: d.update(ns))
            else:
                cls = type(name, bases, ns)
            self.classes.append(cls)
            self.names.append(name)
        for i, u in enumerate(desc["user"]):
            for v in u.get("virtual", []):
                self.classes[NBUILTIN + i].register(self.classes[v])
        # classes that live in an external package, referred to through Deferred["pkg.mod.Cls"] created BEFORE
        # the package is imported (C13: deferred classes)
        self.deferred = []
        if desc.get("ext"):
            import importlib

            from ovld.types import Deferred

            pkg, refs = make_ext_package(desc["ext"])
            dts = [Deferred[r] for r in refs]
            m1 = importlib.import_module(f"{pkg}.m1")
            m3 = importlib.import_module(f"{pkg}.sub.deep.m3")
            # both modules are loaded: the files are no longer needed. Worker processes of the fork pool end
            # through os._exit, which skips atexit handlers, so the directory is removed here and not at exit
            release_ext_package()
            for i, sp in enumerate(desc["ext"]):
                cls = getattr(m1 if sp["mod"] == "shallow" else m3, f"E{i}")
                self.classes.append(cls)
                self.names.append(f"E{i}")
                self.deferred.append((dts[i], cls))
        self.n = len(self.classes)
        self.pred_sets = [set(self.classes[c] for c in s) for s in desc.get("preds", [[]] * NPRED)]
        for dt, target in self.deferred:
            self.pred_sets.append(set(c for c in self.classes if isinstance(c, type) and issubclass(c, target)))
        self.pred_calls = [0] * len(self.pred_sets)
        self.pred_fns = [self._mkpred(k) for k in range(NPRED)]
        self.dep_fns = {}

    def _mkpred(self, k):
        S = self.pred_sets[k]
        w = self

        def pred(cls):
            w.pred_calls[k] += 1
            return isinstance(cls, type) and cls in S

        pred.__name__ = f"pred{k}"
        return pred

    # ---- tables
    def tables(self):
        n = self.n
        sub = [[0] * n for _ in range(n)]
        for i in range(n):
            for j in range(n):
                try:
                    sub[i][j] = int(issubclass(self.classes[i], self.classes[j]))
                except TypeError:
                    sub[i][j] = 0
        attr = [[int(hasattr(self.classes[i], f"m{m}")) for m in range(NATTR)] for i in range(n)]
        pred = [[int(self.classes[c] in S) for c in range(n)] for S in self.pred_sets]
        return {"sub": sub, "attr": attr, "pred": pred}

    def wf(self, tables=None):
        """reflexive / transitive / antisymmetric / below object: the hypotheses `Hier.WF` of the theorems"""
        t = tables or self.tables()
        s = t["sub"]
        n = self.n
        refl = all(s[i][i] for i in range(n))
        top = all(s[i][0] for i in range(n))
        trans = all((not (s[i][j] and s[j][k])) or s[i][k] for i in range(n) for j in range(n) for k in range(n))
        anti = all(i == j or not (s[i][j] and s[j][i]) for i in range(n) for j in range(n))
        return {"refl": refl, "top": top, "trans": trans, "anti": anti}

    # ---- live type objects from descriptors
    def ty(self, d):
        from ovld.dependent import Equals, ProductType
        from ovld.types import Exactly, HasMethod, Intersection, StrictSubclass, Union, class_check

        k = d[0]
        if k == "cls":
            return self.classes[d[1]]
        if k == "gen":
            o = self.classes[d[1]]
            args = tuple(self.ty(a) for a in d[2])
            return o[args if len(args) != 1 else args[0]]
        if k == "union":
            return Union[tuple(self.ty(a) for a in d[1])]
        if k == "inter":
            return Intersection[tuple(self.ty(a) for a in d[1])]
        if k in ("exactly", "strict", "hasm", "pred"):
            key = (k, d[1])
            if key not in self._memo:
                if k == "exactly":
                    v = Exactly[self.classes[d[2]]]
                elif k == "strict":
                    v = StrictSubclass[self.classes[d[2]]]
                elif k == "hasm":
                    v = HasMethod[f"m{d[2]}"]
                elif d[2] >= NPRED:
                    v = self.deferred[d[2] - NPRED][0]
                else:
                    v = class_check(self.pred_fns[d[2]])
                self._memo[key] = (v, d[2])
            v, arg = self._memo[key]
            assert arg == d[2], "tag reused with another argument"
            return v
        if k == "lit":
            vals = [VALUE_POOL[i] for i in d[1]]
            return Equals(*vals, bound=self.ty(d[2]))
        if k == "prod":
            return ProductType(*[self.ty(a) for a in d[1]], bound=self.ty(d[2]))
        if k == "fdep":
            cls = self.dep_class(d[1])
            params = [typing.Any if p is None else f"p{p}" for p in d[2]]
            return cls(*params, bound=self.ty(d[3]))
        raise ValueError(d)

    def dep_class(self, fn):
        from ovld.dependent import dependent_check

        if fn not in self.dep_fns:
            w = self

            def check(value: object, *params):
                return w.dep_check(fn, value, params)

            check.__name__ = f"DC{fn}"
            self.dep_fns[fn] = dependent_check(check)
        return self.dep_fns[fn]

    def dep_check(self, fn, value, params):
        return True

    # ---- descriptor -> model JSON (value indices become equality keys)
    def tyj(self, d):
        k = d[0]
        if k == "cls":
            return d
        if k == "gen":
            return ["gen", d[1], [self.tyj(a) for a in d[2]]]
        if k in ("union", "inter"):
            return [k, [self.tyj(a) for a in d[1]]]
        if k in ("exactly", "strict", "hasm", "pred"):
            # two evaluations of Exactly[A] / StrictSubclass[A] / HasMethod[m] / class_check(fn) are EQUAL types
            # (since the `fix:` for finding D22): the model's identity tag is the same for all of them; a
            # Deferred[...] reference stays one object per reference
            if k == "pred" and d[2] >= NPRED:
                return d
            return [k, 0, d[2]]
        if k == "lit":
            return ["lit", [eq_key(i) for i in d[1]], self.tyj(d[2])]
        if k == "prod":
            return ["prod", [self.tyj(a) for a in d[1]], self.tyj(d[2])]
        if k == "fdep":
            return ["fdep", d[1], d[2], self.tyj(d[3])]
        raise ValueError(d)


def gen_world_desc(rng: random.Random, nuser=None, features=True, generics=0.1, twins=False):
    """random hierarchy descriptor; retried by the caller when CPython rejects the MRO"""
    nuser = nuser if nuser is not None else rng.randint(2, 6)
    user = []
    protos_used = set()
    generic_ids = []
    for i in range(nuser):
        cid = NBUILTIN + i
        kind = "plain"
        r = rng.random()
        if features and r < 0.12:
            kind = "abc"
        elif features and r < 0.2 and (len(protos_used) < NATTR or rng.random() < 0.3):
            kind = "proto"
        elif features and r < 0.2 + generics:
            kind = "generic"
        u = {"kind": kind, "bases": [], "attrs": [], "virtual": []}
        if kind == "proto":
            free = [m for m in range(NATTR) if m not in protos_used]
            # now and then a *twin*: a second protocol requiring the same method — two distinct classes that are
            # subclasses of each other (the one way to break antisymmetry of issubclass)
            m = rng.choice(free) if free and rng.random() < 0.8 else rng.randrange(NATTR)
            protos_used.add(m)
            u["proto_attr"] = m
        else:
            if kind == "generic":
                cands = list(generic_ids)
                bases = [rng.choice(cands)] if cands and rng.random() < 0.6 else []
            else:
                cands = [NBUILTIN + j for j in range(i) if user[j]["kind"] in ("plain", "abc")]
                k = rng.choice([0, 1, 1, 1, 2, 2, 3]) if cands else 0
                bases = sorted(rng.sample(cands, min(k, len(cands))), reverse=True)
            u["bases"] = bases
            u["attrs"] = [m for m in range(NATTR) if rng.random() < 0.25]
            if kind == "generic":
                generic_ids.append(cid)
        user.append(u)
    if twins and nuser >= 3:
        # a pair of twin protocols (same required method: subclasses of each other) and a class that has the method
        m = rng.randrange(NATTR)
        for i in (0, 1):
            user[i] = {"kind": "proto", "bases": [], "attrs": [], "virtual": [], "proto_attr": m}
        for u in user[2:]:
            u["bases"] = [b for b in u["bases"] if b not in (NBUILTIN, NBUILTIN + 1)]
        plain = [u for u in user[2:] if u["kind"] == "plain"]
        if plain and m not in plain[0]["attrs"]:
            plain[0]["attrs"] = sorted(plain[0]["attrs"] + [m])
    # virtual subclasses of ABCs
    for i, u in enumerate(user):
        if u["kind"] == "abc":
            others = [NBUILTIN + j for j in range(nuser) if j != i and user[j]["kind"] in ("plain",)]
            for o in others:
                if rng.random() < 0.25:
                    u["virtual"].append(o)
    n = NBUILTIN + nuser
    ext = []
    if features and rng.random() < 0.3:
        for i in range(rng.randint(1, 3)):
            ext.append({"mod": rng.choice(["shallow", "deep", "deep"]), "base": (rng.randrange(i) if i and rng.random() < 0.6 else None)})
        # a class in the deep module may only derive from classes of the shallow one or earlier deep ones
    n_all = n + len(ext)
    preds = [[c for c in range(n_all) if rng.random() < 0.4] for _ in range(NPRED)]
    d = {"n": n_all, "user": user, "preds": preds}
    if ext:
        d["ext"] = ext
    return d


def make_world(rng, **kw):
    for _ in range(50):
        desc = gen_world_desc(rng, **kw)
        try:
            w = World(desc)
        except Exception:
            continue
        # ABC.register can create cycles that CPython refuses; also skip non-antisymmetric worlds here
        return w
    raise RuntimeError("could not build a hierarchy")
