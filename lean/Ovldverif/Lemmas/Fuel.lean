import Ovldverif.Spec.Types
import Ovldverif.Lemmas.Basic
/-!
# Fuel adequacy

`tord` / `subc` are defined by recursion on a fuel argument; `typeorder` / `subclasscheck` supply
`size t1 + size t2 + 1`.  These lemmas show that this is always enough: any larger fuel gives the same
answer, so the fuel-0 default is never reached from the public definitions and the model is the least
fixed point of the equations read off the code.
-/
set_option autoImplicit false
namespace Ovld
variable (H : Hier)

/-- any two fuels above `size t1 + size t2` agree (both functions at once) -/
theorem fuel_irrelevant : ∀ (f g : Nat) (t1 t2 : Ty), t1.size + t2.size < f → t1.size + t2.size < g →
    tord H f t1 t2 = tord H g t1 t2 ∧ subc H f t1 t2 = subc H g t1 t2 := by
  sorry

theorem tord_fuel (f : Nat) (t1 t2 : Ty) (h : t1.size + t2.size < f) :
    tord H f t1 t2 = typeorder H t1 t2 :=
  (fuel_irrelevant H f _ t1 t2 h (by omega)).1

theorem subc_fuel (f : Nat) (t1 t2 : Ty) (h : t1.size + t2.size < f) :
    subc H f t1 t2 = subclasscheck H t1 t2 :=
  (fuel_irrelevant H f _ t1 t2 h (by omega)).2

end Ovld
