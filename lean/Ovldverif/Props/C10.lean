import Ovldverif.Spec.DepSpec
import Ovldverif.Lemmas.C10Core
/-!
# C10 / C11 — value-dependent methods run exactly when their condition holds, whatever code is generated

`dispatch` is the model of the generated `__DEPENDENT_DISPATCH__` (three possible bodies: lookup table on a
Literal key, first match, counting); `rankSpec` is the documented meaning.
-/
set_option autoImplicit false
namespace Ovld

/-- **strategy independence / correctness**: whichever of the three bodies the generator emits, the dispatcher
    of a rank runs exactly the unique handler all of whose positions accept the values, falls through when
    there is none, and raises the ambiguity when there are several -/
theorem C10_strategy_correct (W : DWorld) (k : List Slot) (hs : List DHandler) (args : List (Slot × DVal))
    (ok : RankOK W k hs args) :
    dispatch W k hs args = rankSpec W k hs args :=
  dispatch_eq_rankSpec W k hs args ok

/-- a Literal's generated check, inside its bound, is membership of the value among the literal's values -/
theorem C11_literal (W : DWorld) (keys : List Nat) (b : Ty) (v : DVal) (hb : isinstanceOf W b v = .yes) :
    genCheck W (.lit keys b) v = isinstanceOf W (.lit keys b) v ∧
    (isinstanceOf W (.lit keys b) v = .yes ↔ v.eq ∈ keys) := by
  have h1 : isinstanceOf W (.lit keys b) v = Tri.ofBool (keys.contains v.eq) := by
    rw [isinstanceOf_lit, hb]
  rw [genCheck_lit, h1, Tri.ofBool_eq_yes, List.contains_iff_mem]
  exact ⟨rfl, Iff.rfl⟩

/-- a user condition / built-in `FuncDependentType` check, inside its bound, is the condition itself -/
theorem C11_fdep (W : DWorld) (fn : Nat) (ps : List (Option Nat)) (b : Ty) (v : DVal)
    (hb : isinstanceOf W b v = .yes) :
    genCheck W (.fdep fn ps b) v = isinstanceOf W (.fdep fn ps b) v := by
  rw [genCheck_fdep, isinstanceOf_fdep, hb]

/-- inside a Union / Intersection every value-dependent member with a class bound is checked *within its
    bound* (the guard of the `fix:` for finding D7): the member's parenthesised code is exactly `isinstance`.

    `htop` (every class is a subclass of `object`, `Hier.WF.top`) is needed because the generated code omits the
    guard when the bound is `object` (`.cls 0`): with `H.sub = fun _ _ => false`, `t = .lit [7] (.cls 0)` and a
    value of equality class 7 the member code answers `yes` while `isinstanceOf` answers `no`. -/
theorem C11_member_guarded (W : DWorld) (t : Ty) (c : Nat) (v : DVal)
    (htop : W.H.sub v.cls 0 = true)
    (ht : (∃ keys, t = .lit keys (.cls c)) ∨ (∃ fn ps, t = .fdep fn ps (.cls c))) :
    memberCheck W (t.size + 1) t v = isinstanceOf W t v := by
  rcases ht with ⟨keys, rfl⟩ | ⟨fn, ps, rfl⟩
  · rw [memberCheck_lit_cls, isinstanceOf_lit, isinstanceOf_cls]
    by_cases h0 : c = 0
    · subst h0; rw [if_pos rfl, htop]; rfl
    · rw [if_neg h0]
      cases W.H.sub v.cls c <;> rfl
  · rw [memberCheck_fdep_cls, isinstanceOf_fdep, isinstanceOf_cls]
    by_cases h0 : c = 0
    · subst h0; rw [if_pos rfl, htop]; rfl
    · rw [if_neg h0]
      cases W.H.sub v.cls c <;> rfl

/-- the user's condition is consulted by a guarded member only for values inside the bound.

    `htop` (every class is a subclass of `object`) excludes the bound `object`, for which no guard is emitted:
    with `H.sub = fun _ _ => false`, `c = 0` and `chk = fun _ _ _ => .yes` the member code answers `yes`. -/
theorem C10_guard (W : DWorld) (fn : Nat) (ps : List (Option Nat)) (c : Nat) (v : DVal)
    (htop : W.H.sub v.cls 0 = true)
    (hout : W.H.sub v.cls c = false) :
    memberCheck W ((Ty.fdep fn ps (.cls c)).size + 1) (.fdep fn ps (.cls c)) v = .no := by
  have h0 : c ≠ 0 := by
    intro e; subst e; rw [htop] at hout; cases hout
  rw [memberCheck_fdep_cls, if_neg h0, hout]
  rfl

end Ovld
