import random, sys, collections
from ovld import Ovld, call_next
exec(open('p_c02.py').read().split("def gen(seed):")[0])   # PermSet injection
LOG = []
def build(classes, meths):
    F = Ovld(name="F")
    for j, (t, prio, mode, other) in enumerate(meths):
        if mode == "end": body = f"    LOG.append({j})\n    return 'end{j}'\n"
        elif mode == "same": body = f"    LOG.append({j})\n    return call_next(a)\n"
        else: body = f"    LOG.append({j})\n    if len(LOG) > 8: return 'cut'\n    return call_next(O())\n"
        g = {"T": t, "O": other, "LOG": LOG, "call_next": call_next}
        src = f"def m{j}(a: T):\n" + body
        import linecache; fn = f"<c07_{id(F)}_{j}>"; linecache.cache[fn] = (len(src), None, src.splitlines(True), fn)
        exec(compile(src, fn, "exec"), g)
        F.register(g[f"m{j}"], priority=prio)
    return F
def app(meths, c): return [j for j, m in enumerate(meths) if issubclass(c, m[0])]
def beats(meths, a, b):
    (ta, pa, *_), (tb, pb, *_) = meths[a], meths[b]
    if pa != pb: return pa > pb
    if ta is tb: return a > b
    return issubclass(ta, tb)
def resolve(meths, live):
    win = [a for a in live if all(beats(meths, a, b) for b in live if b != a)]
    return ("ran", win[0]) if len(win) == 1 else (("nomethod",) if not live else ("amb",))
def spec_run(meths, c):
    log = []
    def call(c, live):
        r = resolve(meths, live)
        if r[0] != "ran": return r
        j = r[1]; log.append(j)
        t, prio, mode, other = meths[j]
        if mode == "end": return ("ok", f"end{j}")
        if mode == "same": c2 = c
        else:
            if len(log) > 8: return ("ok", "cut")
            c2 = other
        a2 = app(meths, c2)
        if j not in a2: return call(c2, a2)          # fresh call
        live2 = [m for m in a2 if m != j and not beats(meths, m, j)]
        return call(c2, live2)
    r = call(c, app(meths, c))
    return r, tuple(log)
def impl_run(F, c):
    LOG.clear()
    try: return ("ok", F(c())), tuple(LOG)
    except TypeError as e:
        s = str(e); return (("amb",) if s.startswith("Ambig") else ("nomethod",) if s.startswith("No method") else ("TE", s[:40])), tuple(LOG)
    except Exception as e: return ("EXC", type(e).__name__), tuple(LOG)
stats = collections.Counter(); shown = collections.Counter()
for seed in range(int(sys.argv[1]), int(sys.argv[2])):
    rnd = random.Random(seed)
    n = rnd.randint(2, 6); classes = []
    for i in range(n):
        k = min(rnd.choice([0, 1, 1, 2]), len(classes)); bases = tuple(rnd.sample(classes, k))
        try: c = type(f"K{i}", bases or (object,), {})
        except TypeError: c = type(f"K{i}", (object,), {})
        classes.append(c)
    types = classes + [object]
    meths = [(rnd.choice(types), rnd.choice([0, 0, 1, -1]), rnd.choice(["end", "same", "same", "other"]), rnd.choice(classes)) for _ in range(rnd.randint(2, 6))]
    F = build(classes, meths)
    for c in classes:
        stats["calls"] += 1
        i, s = impl_run(F, c), spec_run(meths, c)
        if i != s:
            # classify: candidate comparability (D1) on every key visited?
            def comparable(c): 
                a = app(meths, c); return all(issubclass(meths[x][0], meths[y][0]) or issubclass(meths[y][0], meths[x][0]) for x in a for y in a)
            d1 = not all(comparable(k) for k in classes)
            kind = ("D1-class:" if d1 else "OTHER:") + f"{i[0][0]}-vs-{s[0][0]}"
            stats[kind] += 1
            if shown[kind] < 3 and not d1:
                shown[kind] += 1; print(kind, "seed", seed, c.__name__, i, s, [(m[0].__name__, m[1], m[2], m[3].__name__) for m in meths], {k.__name__: [b.__name__ for b in k.__mro__[1:-1]] for k in classes})
print(dict(stats))
