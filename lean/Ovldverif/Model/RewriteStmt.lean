import Ovldverif.Model.Rewrite
/-!
# Layer H, statements: a mini Python statement language over the expressions of `Model/Rewrite.lean`

Statements: assignment to a user variable, expression statement, `return`, `if` / `else`, `while`, `try` / `finally`,
`raise`, `pass`.  A function body is a block (`List Stmt`).  `exec` executes a block and reports how it ended
(`Outcome`: fell off the end / `return v` / exception / out of fuel) with the final environment and effect log.
`rwS` is `ast.NodeTransformer.generic_visit` over the body: `rw` (= `NameConverter.visit_Call`) is applied to every
expression of every statement in source order (`If`: test, body, orelse; `While`: test, body; `Try`: body, finalbody),
threading the temporary counter through the whole body.

Fuel: `exec` is structurally recursive on its fuel argument and every recursive call (next statement of the block,
a nested block, the next iteration of a loop) consumes one unit, so the fuel bounds the depth of the recursion — in
particular the number of iterations of every loop and the length of every block.  When it runs out the outcome is
`Outcome.fuel` (not a Python outcome: "unknown"); it is propagated at once (`finally` blocks are not run for it).

Truthiness (`truthy`) is exactly the notion of the conditional expression of `eval`: the integer `0` is false, every
other value is true.
Not modelled: `break` / `continue`, `while … else`, `except` clauses, `with`, nested function definitions, augmented
or tuple assignment, `del`.
-/
set_option autoImplicit false
namespace Ovld.Rw

inductive Stmt
  | assign (x : String) (e : Expr)            -- `x = e`, `x` a user variable
  | expr (e : Expr)
  | ret (e : Expr)
  | ite (c : Expr) (thn els : List Stmt)
  | «while» (c : Expr) (body : List Stmt)
  | tryFinally (body fin : List Stmt)
  | raise (n : Nat)                           -- raises `Exn.user n`
  | pass

inductive Outcome | normal | returned (v : Val) | exn (e : Exn) | fuel
deriving DecidableEq, Repr

abbrev Res := Outcome × Env × Log

/-- truthiness, as in the conditional expression of `eval` (`.ok (.int 0)` selects the else-branch, any other value
    the then-branch) -/
def truthy : Val → Bool
  | .int 0 => false
  | _ => true

/-- continue with `K` on the value of an expression; an exception of the expression ends the block -/
def bindE (r : Except Exn Val × Env × Log) (K : Val → Env → Log → Res) : Res :=
  match r with
  | (.ok v, ρ, l) => K v ρ l
  | (.error ex, ρ, l) => (.exn ex, ρ, l)

/-- continue with `K` after a block that completed normally; any other outcome of the block stands -/
def bindO (r : Res) (K : Env → Log → Res) : Res :=
  match r with
  | (.normal, ρ, l) => K ρ l
  | (.returned v, ρ, l) => (.returned v, ρ, l)
  | (.exn e, ρ, l) => (.exn e, ρ, l)
  | (.fuel, ρ, l) => (.fuel, ρ, l)

/-- `try: body finally: fin` followed by `K`; `r` is the result of `body`.  `fin` (`F`) runs whatever `body` did; if
    it completes normally the outcome of `body` stands (and `K` runs when that was normal completion), otherwise the
    outcome of `fin` replaces it. -/
def tryFin (r : Res) (F K : Env → Log → Res) : Res :=
  match r with
  | (.normal, ρ, l) => bindO (F ρ l) K
  | (.returned v, ρ, l) => bindO (F ρ l) (fun ρ' l' => (.returned v, ρ', l'))
  | (.exn e, ρ, l) => bindO (F ρ l) (fun ρ' l' => (.exn e, ρ', l'))
  | (.fuel, ρ, l) => (.fuel, ρ, l)

def exec (W : World) : Nat → List Stmt → Env → Log → Res
  | _, [], ρ, l => (.normal, ρ, l)
  | 0, _ :: _, ρ, l => (.fuel, ρ, l)
  | n + 1, .assign x e :: rest, ρ, l =>
    bindE (eval W e ρ l) (fun v ρ' l' => exec W n rest (setVar ρ' (.user x) v) l')
  | n + 1, .expr e :: rest, ρ, l =>
    bindE (eval W e ρ l) (fun _ ρ' l' => exec W n rest ρ' l')
  | _ + 1, .ret e :: _, ρ, l =>
    bindE (eval W e ρ l) (fun v ρ' l' => (.returned v, ρ', l'))
  | n + 1, .ite c thn els :: rest, ρ, l =>
    bindE (eval W c ρ l) (fun v ρ' l' =>
      bindO (exec W n (if truthy v then thn else els) ρ' l') (exec W n rest))
  | n + 1, .while c body :: rest, ρ, l =>
    bindE (eval W c ρ l) (fun v ρ' l' =>
      if truthy v then bindO (exec W n body ρ' l') (exec W n (.while c body :: rest))
      else exec W n rest ρ' l')
  | n + 1, .tryFinally body fin :: rest, ρ, l =>
    tryFin (exec W n body ρ l) (exec W n fin) (exec W n rest)
  | _ + 1, .raise m :: _, ρ, l => (.exn (.user m), ρ, l)
  | n + 1, .pass :: rest, ρ, l => exec W n rest ρ l

/-! ### the rewrite of a function body: `rw` on every expression, in source order, one counter for the whole body -/
mutual
def rwStmt : Stmt → Nat → Stmt × Nat
  | .assign x e, k => (.assign x (rw e k).1, (rw e k).2)
  | .expr e, k => (.expr (rw e k).1, (rw e k).2)
  | .ret e, k => (.ret (rw e k).1, (rw e k).2)
  | .ite c thn els, k =>
    let c' := rw c k
    let t' := rwS thn c'.2
    let e' := rwS els t'.2
    (.ite c'.1 t'.1 e'.1, e'.2)
  | .while c body, k =>
    let c' := rw c k
    let b' := rwS body c'.2
    (.while c'.1 b'.1, b'.2)
  | .tryFinally body fin, k =>
    let b' := rwS body k
    let f' := rwS fin b'.2
    (.tryFinally b'.1 f'.1, f'.2)
  | .raise n, k => (.raise n, k)
  | .pass, k => (.pass, k)
def rwS : List Stmt → Nat → List Stmt × Nat
  | [], k => ([], k)
  | s :: rest, k =>
    let s' := rwStmt s k
    let r' := rwS rest s'.2
    (s'.1 :: r'.1, r'.2)
end

/-! ### well-formed user code: every expression is `userOnly` -/
mutual
def userOnlyStmt : Stmt → Bool
  | .assign _ e => userOnly e
  | .expr e => userOnly e
  | .ret e => userOnly e
  | .ite c thn els => userOnly c && userOnlyS thn && userOnlyS els
  | .while c body => userOnly c && userOnlyS body
  | .tryFinally body fin => userOnlyS body && userOnlyS fin
  | .raise _ => true
  | .pass => true
def userOnlyS : List Stmt → Bool
  | [] => true
  | s :: rest => userOnlyStmt s && userOnlyS rest
end

/-! ### blocks without any call of the globals `recurse` / `call_next` -/
mutual
def noRecCallStmt : Stmt → Bool
  | .assign _ e => noRecCall e
  | .expr e => noRecCall e
  | .ret e => noRecCall e
  | .ite c thn els => noRecCall c && noRecCallS thn && noRecCallS els
  | .while c body => noRecCall c && noRecCallS body
  | .tryFinally body fin => noRecCallS body && noRecCallS fin
  | .raise _ => true
  | .pass => true
def noRecCallS : List Stmt → Bool
  | [] => true
  | s :: rest => noRecCallStmt s && noRecCallS rest
end

end Ovld.Rw
