import Ovldverif.Spec.Runs
import Ovldverif.Lemmas.FnInv
/-!
# C05 — after register / unregister, behaviour equals a freshly built function (or table)
-/
set_option autoImplicit false
namespace Ovld

/-- operations on the public multi-type table -/
inductive TOp | reg (m : Meth) | get (ck : CKey Key)

def MMap.runOps (cfg : Cfg) (mm : MMap) : List TOp → MMap
  | [] => mm
  | .reg m :: rest => MMap.runOps cfg (mm.register m) rest
  | .get ck :: rest => MMap.runOps cfg (mm.lookup cfg ck).1 rest

/-- the entries registered by an operation sequence, in order -/
def regsOf : List TOp → List Meth
  | [] => []
  | .reg m :: rest => m :: regsOf rest
  | .get _ :: rest => regsOf rest

/-! ### table level: helper lemmas -/

/-- distinctness of the handlers of a list passes to every prefix -/
theorem DistinctHandlers.left {a b : List Meth} (h : DistinctHandlers (a ++ b)) : DistinctHandlers a := by
  obtain ⟨h1, h2⟩ := h
  rw [List.map_append] at h1 h2
  exact ⟨(List.nodup_append.mp h1).1, (List.nodup_append.mp h2).1⟩

theorem MMap.fresh_append (ms : List Meth) (m : Meth) :
    MMap.fresh (ms ++ [m]) = (MMap.fresh ms).register m := by
  unfold MMap.fresh
  rw [List.foldl_append]
  rfl

/-- a registration turns ANY state satisfying the invariant for `ms0` into one satisfying it for `ms0 ++ [m]`:
    nothing cached survives (`StBlank.of_cleared`) -/
theorem MMap.register_inv (cfg : Cfg) (ms0 : List Meth) (m : Meth) (mm : MMap)
    (h : MInv cfg ms0 mm) :
    MInv cfg (ms0 ++ [m]) (mm.register m) := by
  refine ⟨?_, (StBlank.of_cleared mm.st).inv _⟩
  show mm.meths ++ [m] = ms0 ++ [m]
  rw [h.meths]

theorem MMap.runOps_inv (cfg : Cfg) : ∀ (ops : List TOp) (ms0 : List Meth) (mm : MMap),
    DistinctHandlers (ms0 ++ regsOf ops) → MInv cfg ms0 mm →
    MInv cfg (ms0 ++ regsOf ops) (MMap.runOps cfg mm ops)
  | [], ms0, mm, _, h => by
    show MInv cfg (ms0 ++ []) mm
    rw [List.append_nil]; exact h
  | .reg m :: rest, ms0, mm, hd, h => by
    have e : ms0 ++ regsOf (.reg m :: rest) = (ms0 ++ [m]) ++ regsOf rest := by
      show ms0 ++ m :: regsOf rest = _
      rw [List.append_assoc]; rfl
    rw [e] at hd ⊢
    exact MMap.runOps_inv cfg rest (ms0 ++ [m]) (mm.register m) hd (MMap.register_inv cfg ms0 m mm h)
  | .get ck :: rest, ms0, mm, hd, h => by
    have hd0 : DistinctHandlers ms0 := hd.left
    have ok := plan_ok cfg ms0 hd0.ids hd0.codes
    exact MMap.runOps_inv cfg rest ms0 _ hd (MMap.lookup_spec cfg ms0 ok mm h ck).2

/-- table level: after ANY interleaving of registrations and lookups (succeeding, ambiguous, unmatched,
    continuation keys), a lookup returns what it returns on a brand-new table on which the same entries were
    registered and nothing was ever looked up: no result or error computed before a change survives it -/
theorem C05_table (cfg : Cfg) (ops : List TOp) (hd : DistinctHandlers (regsOf ops)) (ck : CKey Key) :
    ((MMap.runOps cfg {} ops).lookup cfg ck).2 = ((MMap.fresh (regsOf ops)).lookup cfg ck).2 := by
  have ok := plan_ok cfg (regsOf ops) hd.ids hd.codes
  have h0 : MInv cfg [] {} := MMap.fresh_inv cfg []
  have h1 := MMap.runOps_inv cfg ops [] {} (by rw [List.nil_append]; exact hd) h0
  rw [List.nil_append] at h1
  rw [(MMap.lookup_spec cfg _ ok _ h1 ck).1, (MMap.lookup_spec cfg _ ok _ (MMap.fresh_inv cfg _) ck).1]

/-- operations on an overloaded function -/
inductive FOp | reg (d : Def) | unreg (id : Nat) | call (c : Call)

def Fn.runOps (cfg : Cfg) (fn : Fn) : List FOp → Fn
  | [] => fn
  | .reg d :: rest => Fn.runOps cfg (fn.register d).1 rest
  | .unreg id :: rest => Fn.runOps cfg (fn.unregister id).1 rest
  | .call c :: rest => Fn.runOps cfg (fn.call cfg c).1 rest

/-- every registration / unregistration in the sequence was accepted: the function is never locked and the
    method set never becomes inconsistent (argument-name conflicts are C18's subject) -/
def Fn.opsAccepted (cfg : Cfg) (fn : Fn) : List FOp → Bool
  | [] => true
  | .reg d :: rest => (fn.register d).2.isNone && Fn.opsAccepted cfg (fn.register d).1 rest
  | .unreg id :: rest => (fn.unregister id).2.isNone && Fn.opsAccepted cfg (fn.unregister id).1 rest
  | .call c :: rest => Fn.outcome (fn.call cfg c) != .configError && Fn.opsAccepted cfg (fn.call cfg c).1 rest

/-! ### function level: structural lemmas (no distinctness needed) -/

/-- what a successful `compile()` returns -/
theorem Fn.compile_ok (fn f : Fn) (h : fn.compile = .ok f) :
    ∃ ana, analyze (fn.defns.map (·.1.d)) = .ok ana ∧
      f = { fn with compiled := true, mm := MMap.fresh (Fn.methsOf fn.defns), ana := ana } := by
  unfold Fn.compile at h
  cases ha : analyze (fn.defns.map (·.1.d)) with
  | error e =>
    have h' : (analyze (fn.defns.map (·.1.d)) >>= _) = Except.ok f := h
    rw [ha] at h'
    cases h'
  | ok ana =>
    have h' : (analyze (fn.defns.map (·.1.d)) >>= _) = Except.ok f := h
    rw [ha] at h'
    exact ⟨ana, rfl, (Except.ok.inj h').symm⟩

theorem lookThen_struct (cfg : Cfg) (k : Fn → Entry → Result)
    (hk : ∀ fn' e', (k fn' e').1.defns = fn'.defns ∧ (k fn' e').1.compiled = fn'.compiled)
    (fn : Fn) (tr : Trace) (ck : CKey Key) :
    (lookThen cfg k fn tr ck).1.defns = fn.defns ∧ (lookThen cfg k fn tr ck).1.compiled = fn.compiled := by
  unfold lookThen
  dsimp only
  split
  · exact hk _ _
  · exact ⟨rfl, rfl⟩

/-- running a dict entry changes nothing but the table's caches -/
theorem runEntry_struct (cfg : Cfg) : ∀ (f : Nat) (fn : Fn) (e : Entry) (x : Dispatch) (d : Nat),
    (runEntry cfg f fn e x d).1.defns = fn.defns ∧ (runEntry cfg f fn e x d).1.compiled = fn.compiled := by
  intro f
  induction f with
  | zero => intro fn e x d; exact ⟨rfl, rfl⟩
  | succ f ih =>
    intro fn e x d
    cases e with
    | dep hs nx =>
      rw [runEntry_dep]
      cases depRes cfg fn.mm.meths hs x with
      | handler h => exact ih fn (.meth h) x d
      | fallthrough =>
        cases nx with
        | noNext => exact ⟨rfl, rfl⟩
        | ambNext ids => exact ⟨rfl, rfl⟩
        | meth id => exact ih fn (.meth id) x d
        | dep hs' nx' => exact ih fn (.dep hs' nx') x d
      | ambiguous => exact ⟨rfl, rfl⟩
      | raised => exact ⟨rfl, rfl⟩
    | noNext => rw [runEntry_noNext]; exact ⟨rfl, rfl⟩
    | ambNext ids => rw [runEntry_ambNext]; exact ⟨rfl, rfl⟩
    | meth id =>
      rw [runEntry_meth]
      cases findDef fn id with
      | none => exact ⟨rfl, rfl⟩
      | some df =>
        dsimp only
        cases methodBind df.d x with
        | none => exact ⟨rfl, rfl⟩
        | some _ =>
          dsimp only
          cases bodyKey df id with
          | none => exact ⟨rfl, rfl⟩
          | some p =>
            obtain ⟨ck, srcs, subtler⟩ := p
            dsimp only
            by_cases hd : d ≥ depthLimit
            · rw [if_pos hd]; exact ⟨rfl, rfl⟩
            · rw [if_neg hd]
              exact lookThen_struct cfg _ (fun a e' => ih a e' _ _) fn _ _

/-- a call on a compiled function object changes nothing but the table's caches -/
theorem Fn.call_struct (cfg : Cfg) (fn : Fn) (hc : fn.compiled = true) (c : Call) :
    (fn.call cfg c).1.defns = fn.defns ∧ (fn.call cfg c).1.compiled = fn.compiled := by
  rw [Fn.call_compiled cfg fn hc]
  cases entry fn.ana c with
  | error _ => exact ⟨rfl, rfl⟩
  | ok x => exact lookThen_struct cfg _ (fun a e' => runEntry_struct cfg 64 a e' x 1) fn _ _

/-- the first call: compile, then call -/
theorem Fn.call_uncompiled_ok (cfg : Cfg) (fn f : Fn) (hc : fn.compiled = false) (h : fn.compile = .ok f)
    (hf : f.compiled = true) (c : Call) : fn.call cfg c = f.call cfg c := by
  unfold Fn.call
  rw [hc, hf, h]
  rfl

theorem Fn.call_uncompiled_err (cfg : Cfg) (fn : Fn) (err : CfgErr) (hc : fn.compiled = false)
    (h : fn.compile = .error err) (c : Call) : fn.call cfg c = (fn, .configError, [], 0) := by
  unfold Fn.call
  rw [hc, h]
  rfl

/-- calls do not change the definitions -/
theorem call_defns (cfg : Cfg) (fn : Fn) (c : Call) : (fn.call cfg c).1.defns = fn.defns := by
  cases hc : fn.compiled with
  | true => exact (Fn.call_struct cfg fn hc c).1
  | false =>
    cases h : fn.compile with
    | error err => rw [Fn.call_uncompiled_err cfg fn err hc h c]
    | ok f =>
      obtain ⟨ana, _, hf⟩ := Fn.compile_ok fn f h
      have hfc : f.compiled = true := by rw [hf]
      rw [Fn.call_uncompiled_ok cfg fn f hc h hfc c, (Fn.call_struct cfg f hfc c).1, hf]

/-! ### function level: the invariant of accepted operation sequences -/

/-- either never compiled (then the object is literally a new one carrying its definitions), or compiled with
    a successful analysis of the current definitions and — whenever the current handlers are distinct — the
    cache invariant `FInv`.  Distinctness is only assumed where it is used: a (re)compilation re-establishes
    `FInv` from a blank table whatever was cached before. -/
def Good (cfg : Cfg) (fn : Fn) : Prop :=
  fn = Fn.fresh fn.defns ∨
  (fn.compiled = true ∧ ∃ ana, analyze (fn.defns.map (·.1.d)) = .ok ana ∧
    (DistinctHandlers (Fn.methsOf fn.defns) →
      FInv cfg fn.defns ana fn))

/-- `_update()`: recompile when already compiled -/
def Fn.update (fn' : Fn) : Fn × Option Outcome :=
  if fn'.compiled then
    match fn'.compile with
    | .ok f => (f, none)
    | .error _ => (fn', some .configError)
  else (fn', none)

theorem Fn.update_defns (fn' : Fn) : (Fn.update fn').1.defns = fn'.defns := by
  unfold Fn.update
  cases fn'.compiled with
  | false => rfl
  | true =>
    simp only [↓reduceIte]
    cases h : fn'.compile with
    | error _ => rfl
    | ok f =>
      obtain ⟨ana, _, hf⟩ := Fn.compile_ok fn' f h
      show f.defns = _
      rw [hf]

theorem Fn.update_good (cfg : Cfg) (fn' : Fn) (hfr : fn'.compiled = false → fn' = Fn.fresh fn'.defns)
    (h : (Fn.update fn').2.isNone = true) : Good cfg (Fn.update fn').1 := by
  unfold Fn.update at h ⊢
  cases hc : fn'.compiled with
  | false =>
    rw [hc] at h
    exact Or.inl (hfr hc)
  | true =>
    rw [hc] at h
    simp only [↓reduceIte] at h ⊢
    cases hcomp : fn'.compile with
    | error _ => rw [hcomp] at h; cases h
    | ok f =>
      obtain ⟨ana, ha, hf⟩ := Fn.compile_ok fn' f hcomp
      show Good cfg f
      subst hf
      exact Or.inr ⟨rfl, ana, ha, fun _ => ⟨rfl, rfl, rfl, MMap.fresh_inv _ _⟩⟩

theorem Fn.register_accepted (fn : Fn) (d : Def) (h : (fn.register d).2.isNone = true) :
    fn.register d = Fn.update { fn with defns := setDefn (fn.defns.length + 1) fn.defns d 0 } := by
  unfold Fn.register at h ⊢
  split at h
  · cases h
  · split at h
    · cases h
    · rename_i h1 h2
      rw [if_neg h1, if_neg h2]
      rfl

theorem Fn.unregister_accepted (fn : Fn) (id : Nat) (h : (fn.unregister id).2.isNone = true) :
    fn.unregister id = Fn.update { fn with defns := fn.defns.filter (fun e => e.1.d.id != id) } := by
  unfold Fn.unregister at h ⊢
  split at h
  · cases h
  · rename_i h1
    rw [if_neg h1]
    rfl

theorem Fn.fresh_compiled (fn : Fn) (h : fn = Fn.fresh fn.defns) : fn.compiled = false := by
  rw [h]; rfl

theorem Fn.fresh_setDefns (fn : Fn) (h : fn = Fn.fresh fn.defns) (ds : List (Def × Int)) :
    { fn with defns := ds } = Fn.fresh ds := by
  rw [h]; rfl

/-- changing the definitions of a good state and updating gives a good state -/
theorem Fn.setDefns_update_good (cfg : Cfg) (fn : Fn) (hg : Good cfg fn) (ds : List (Def × Int))
    (h : (Fn.update { fn with defns := ds }).2.isNone = true) : Good cfg (Fn.update { fn with defns := ds }).1 := by
  refine Fn.update_good cfg _ ?_ h
  intro hc
  rcases hg with hf | ⟨hc', _⟩
  · exact Fn.fresh_setDefns fn hf ds
  · have : fn.compiled = false := hc
    rw [hc'] at this; cases this

theorem Fn.register_good (cfg : Cfg) (fn : Fn) (d : Def) (hg : Good cfg fn)
    (h : (fn.register d).2.isNone = true) : Good cfg (fn.register d).1 := by
  have e := Fn.register_accepted fn d h
  rw [e] at h ⊢
  exact Fn.setDefns_update_good cfg fn hg _ h

theorem Fn.unregister_good (cfg : Cfg) (fn : Fn) (id : Nat) (hg : Good cfg fn)
    (h : (fn.unregister id).2.isNone = true) : Good cfg (fn.unregister id).1 := by
  have e := Fn.unregister_accepted fn id h
  rw [e] at h ⊢
  exact Fn.setDefns_update_good cfg fn hg _ h

theorem Fn.call_good (cfg : Cfg) (fn : Fn) (c : Call) (hg : Good cfg fn) : Good cfg (fn.call cfg c).1 := by
  have hdef := call_defns cfg fn c
  rcases hg with hf | ⟨hc, ana, ha, hi⟩
  · have e1 : fn.call cfg c = (Fn.fresh fn.defns).call cfg c := congrArg (fun f => f.call cfg c) hf
    cases ha : analyze (fn.defns.map (·.1.d)) with
    | error err =>
      refine Or.inl ?_
      rw [e1, Fn.call_fresh_err cfg _ err ha c]
      rfl
    | ok ana =>
      have e2 := Fn.call_fresh_ok cfg _ ana ha c
      have hb := Fn.call_struct cfg (Fn.built fn.defns ana) rfl c
      refine Or.inr ⟨?_, ana, ?_, ?_⟩
      · rw [e1, e2]; exact hb.2
      · rw [hdef]; exact ha
      · rw [hdef]
        intro hd
        rw [e1, e2]
        have ok := plan_ok (Fn.cfgOf cfg fn.defns) (Fn.methsOf fn.defns) hd.ids hd.codes
        exact (call_rel cfg _ ana ok _ _ (Fn.built_inv cfg _ ana) (Fn.built_inv cfg _ ana) c).inv1
  · have hs := Fn.call_struct cfg fn hc c
    refine Or.inr ⟨hs.2.trans hc, ana, by rw [hdef]; exact ha, ?_⟩
    rw [hdef]
    intro hd
    have ok := plan_ok (Fn.cfgOf cfg fn.defns) (Fn.methsOf fn.defns) hd.ids hd.codes
    exact (call_rel cfg _ ana ok fn fn (hi hd) (hi hd) c).inv1

theorem Fn.runOps_good (cfg : Cfg) : ∀ (ops : List FOp) (fn : Fn), Good cfg fn →
    Fn.opsAccepted cfg fn ops = true → Good cfg (Fn.runOps cfg fn ops)
  | [], _, hg, _ => hg
  | .reg d :: rest, fn, hg, hacc => by
    have h : ((fn.register d).2.isNone && Fn.opsAccepted cfg (fn.register d).1 rest) = true := hacc
    rw [Bool.and_eq_true] at h
    exact Fn.runOps_good cfg rest _ (Fn.register_good cfg fn d hg h.1) h.2
  | .unreg id :: rest, fn, hg, hacc => by
    have h : ((fn.unregister id).2.isNone && Fn.opsAccepted cfg (fn.unregister id).1 rest) = true := hacc
    rw [Bool.and_eq_true] at h
    exact Fn.runOps_good cfg rest _ (Fn.unregister_good cfg fn id hg h.1) h.2
  | .call c :: rest, fn, hg, hacc => by
    have h : (Fn.outcome (fn.call cfg c) != .configError && Fn.opsAccepted cfg (fn.call cfg c).1 rest) = true := hacc
    rw [Bool.and_eq_true] at h
    exact Fn.runOps_good cfg rest _ (Fn.call_good cfg fn c hg) h.2

/-- function level: after any sequence of registrations, re-registrations, unregistrations and calls, a call
    behaves (outcome and entered method bodies with the argument objects they receive) exactly as on a
    brand-new function object carrying the resulting definitions, never called before -/
theorem C05_fn (cfg : Cfg) (ops : List FOp) (hacc : Fn.opsAccepted cfg {} ops = true)
    (hd : DistinctHandlers (Fn.methsOf (Fn.runOps cfg {} ops).defns)) (c : Call) :
    Fn.outcome ((Fn.runOps cfg {} ops).call cfg c) = Fn.outcome ((Fn.fresh (Fn.runOps cfg {} ops).defns).call cfg c) ∧
    Fn.trace ((Fn.runOps cfg {} ops).call cfg c) = Fn.trace ((Fn.fresh (Fn.runOps cfg {} ops).defns).call cfg c) := by
  have hg := Fn.runOps_good cfg ops {} (Or.inl rfl) hacc
  generalize Fn.runOps cfg {} ops = fn at hg hd ⊢
  have ok := plan_ok (Fn.cfgOf cfg fn.defns) (Fn.methsOf fn.defns) hd.ids hd.codes
  rcases hg with hf | ⟨hc, ana, ha, hi⟩
  · have e1 : fn.call cfg c = (Fn.fresh fn.defns).call cfg c := congrArg (fun f => f.call cfg c) hf
    rw [e1]
    exact ⟨rfl, rfl⟩
  · rw [Fn.call_fresh_ok cfg _ ana ha c]
    have r := call_rel cfg _ ana ok fn (Fn.built fn.defns ana) (hi hd) (Fn.built_inv cfg _ ana) c
    exact ⟨r.outcome, r.trace⟩

/-- without unregistrations the resulting definitions are exactly what registering the same functions in the
    same order on a new object produces (calls in between are irrelevant) -/
def regDefs : List FOp → List Def
  | [] => []
  | .reg d :: rest => d :: regDefs rest
  | .unreg _ :: rest => regDefs rest
  | .call _ :: rest => regDefs rest

def noUnreg : List FOp → Bool
  | [] => true
  | .unreg _ :: _ => false
  | _ :: rest => noUnreg rest

/-- a registration on a never-compiled, unlocked object only updates the definitions -/
theorem Fn.register_plain (fn : Fn) (d : Def) (hc : fn.compiled = false) (hl : fn.locked = false)
    (hr : fn.allowReplacement = true) :
    fn.register d = ({ fn with defns := setDefn (fn.defns.length + 1) fn.defns d 0 }, none) := by
  unfold Fn.register
  rw [hc, hl, hr]
  rfl

theorem Fn.runOps_defns_register_only (cfg : Cfg) : ∀ (ops : List FOp) (fn1 fn2 : Fn),
    noUnreg ops = true → Fn.opsAccepted cfg fn1 ops = true → fn1.defns = fn2.defns →
    fn2.compiled = false → fn2.locked = false → fn2.allowReplacement = true →
    (Fn.runOps cfg fn1 ops).defns = (Fn.runOps cfg fn2 ((regDefs ops).map FOp.reg)).defns
  | [], _, _, _, _, he, _, _, _ => he
  | .reg d :: rest, fn1, fn2, hn, hacc, he, hc, hl, hr => by
    have h : ((fn1.register d).2.isNone && Fn.opsAccepted cfg (fn1.register d).1 rest) = true := hacc
    rw [Bool.and_eq_true] at h
    have e1 := Fn.register_accepted fn1 d h.1
    have e2 := Fn.register_plain fn2 d hc hl hr
    show (Fn.runOps cfg (fn1.register d).1 rest).defns =
      (Fn.runOps cfg (fn2.register d).1 ((regDefs rest).map FOp.reg)).defns
    refine Fn.runOps_defns_register_only cfg rest _ _ hn h.2 ?_ ?_ ?_ ?_
    · rw [e1, e2, Fn.update_defns, he]
    · rw [e2]; exact hc
    · rw [e2]; exact hl
    · rw [e2]; exact hr
  | .unreg _ :: _, _, _, hn, _, _, _, _, _ => by cases hn
  | .call c :: rest, fn1, fn2, hn, hacc, he, hc, hl, hr => by
    have h : (Fn.outcome (fn1.call cfg c) != .configError && Fn.opsAccepted cfg (fn1.call cfg c).1 rest) = true := hacc
    rw [Bool.and_eq_true] at h
    exact Fn.runOps_defns_register_only cfg rest _ fn2 hn h.2 ((call_defns cfg fn1 c).trans he) hc hl hr

theorem C05_defns_register_only (cfg : Cfg) (ops : List FOp) (hn : noUnreg ops = true)
    (hacc : Fn.opsAccepted cfg {} ops = true) :
    (Fn.runOps cfg {} ops).defns = (Fn.runOps cfg {} ((regDefs ops).map FOp.reg)).defns :=
  Fn.runOps_defns_register_only cfg ops {} {} hn hacc rfl rfl rfl rfl

end Ovld
