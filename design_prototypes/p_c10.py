import random, sys, collections
from typing import Literal
from ovld import Ovld, Dependent
from ovld.types import normalize_type
from ovld.mro import typeorder, subclasscheck, Order
exec(open('p_c02.py').read().split("def gen(seed):")[0])   # PermSet injection (insertion order)
import ovld.dependent as _d
if "--fixd4" in sys.argv: _d.Equals.get_keys = lambda self: list(self.parameters)
PREDS = {"pos": lambda x: isinstance(x, int) and x > 0, "even": lambda x: isinstance(x, int) and x % 2 == 0, "small": lambda x: isinstance(x, int) and -2 <= x <= 2, "T": lambda x: True}
def mk_type(rnd):
    r = rnd.random()
    if r < 0.35:
        vals = tuple(rnd.sample([0, 1, 2, 3, True], rnd.choice([1, 1, 2, 3])))
        return ("lit", vals), Literal[vals]
    if r < 0.6:
        p = rnd.choice(list(PREDS)); b = rnd.choice([int, int, bool, object])
        return ("dep", b.__name__, p), Dependent[b, PREDS[p]]
    t = rnd.choice([int, bool, object, str])
    return ("cls", t.__name__), t
def valueok(desc, v):
    if desc[0] == "lit":
        if "--newbound" in sys.argv: return isinstance(v, tuple(type(x) for x in desc[1])) and any(v == x for x in desc[1])
        return type(v) in (int, bool) and isinstance(v, type(desc[1][0])) and any(v == x for x in desc[1])   # as isinstance() of the library defines it (bound = type of first)
    if desc[0] == "dep":
        b = {"int": int, "bool": bool, "object": object}[desc[1]]
        if not isinstance(v, b): return False
        try: return bool(PREDS[desc[2]](v))
        except Exception: return False
    return isinstance(v, {"int": int, "bool": bool, "object": object, "str": str}[desc[1]])
stats = collections.Counter(); shown = collections.Counter()
for seed in range(int(sys.argv[1]), int(sys.argv[2])):
    rnd = random.Random(seed)
    nm = rnd.randint(1, 6)
    F = Ovld(name="F"); meths = []
    for j in range(nm):
        desc, t = mk_type(rnd)
        prio = rnd.choice([0, 0, 0, 0, 1])
        g = {"T": t}
        exec(compile(f"def m{j}(x: T):\n    return {j}\n", f"<g{j}>", "exec"), g)
        try: F.register(g[f"m{j}"], priority=prio)
        except Exception as e: stats["regerr"] += 1; continue
        meths.append((j, desc, normalize_type(t, None), prio))
    for v in (0, 1, 2, 3, -1, True, False, "s"):
        stats["calls"] += 1
        try: got = ("ran", F(v))
        except TypeError as e:
            s = str(e); got = ("amb",) if s.startswith("Ambig") else ("nomethod",) if s.startswith("No method") else ("TE", s[:40])
        except Exception as e: got = ("EXC", type(e).__name__)
        live = [m for m in meths if valueok(m[1], v)]
        def beats(a, b):
            if a[3] != b[3]: return a[3] > b[3]
            if a[2] == b[2]: return a[0] > b[0]      # identical signature: later wins (replacement)
            return typeorder(a[2], b[2]) is Order.LESS
        # identical signatures replace: drop earlier ones
        win = [a for a in live if all(beats(a, b) for b in live if b is not a)]
        spec = ("ran", win[0][0]) if len(win) == 1 else (("nomethod",) if not live else ("amb",))
        if got != spec:
            kind = f"{got[0]}-vs-{spec[0]}"
            stats[kind] += 1
            if shown[kind] < 4:
                shown[kind] += 1; print(kind, "seed", seed, "v", repr(v), got, spec, [(m[0], m[1], m[3]) for m in meths])
print(dict(stats))
