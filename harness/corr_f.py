"""Correspondence at function level: real Ovld vs the Lean model (Model/Fn.lean)."""
import json
import random
import sys

from common import run_driver, use_repo

use_repo()
from fngen import gen_fn_scenario, to_model  # noqa: E402
from fnlevel import FnWorld  # noqa: E402


def canon_model_op(m):
    o = m["o"]
    if o and o[0] == "ambiguous":
        o = ["ambiguous"]
    r = {"o": o}
    if "t" in m:
        r["t"] = m["t"]
    if "nres" in m:
        r["nres"] = m["nres"]
    return r


def run(seed, n, **kw):
    rng = random.Random(seed)
    scs, impls, keep = [], [], []
    for _ in range(n):
        w, sc = gen_fn_scenario(rng, **kw)
        impls.append(FnWorld(w, sc).run())
        scs.append(to_model(w, sc))
        keep.append((w, sc))
    res = run_driver(scs)
    diffs, nops, hist = [], 0, {}
    for i, (r, im) in enumerate(zip(res, impls)):
        if "error" in r:
            diffs.append((i, "driver-error", r["error"]))
            continue
        for j, (a, b) in enumerate(zip(r["ops"], im)):
            nops += 1
            hist[b["o"][0]] = hist.get(b["o"][0], 0) + 1
            a = canon_model_op(a)
            b = {k: v for k, v in b.items() if k in ("o", "t", "nres")}
            if a != b:
                diffs.append((i, j, "model", a, "impl", b, keep[i][1]["ops"][j]))
                break
    return nops, diffs, hist, keep


if __name__ == "__main__":
    seed = int(sys.argv[1]) if len(sys.argv) > 1 else 0
    n = int(sys.argv[2]) if len(sys.argv) > 2 else 50
    simple = len(sys.argv) > 3 and sys.argv[3] == "simple"
    nops, diffs, hist, keep = run(seed, n, simple_sigs=simple)
    print("ops", nops, "diffs", len(diffs), hist)
    for d in diffs[:4]:
        print(json.dumps(d, default=str)[:1200])
        print(json.dumps(keep[d[0]][1])[:2500])
