/-!
# Layer H: a mini Python expression language, its evaluator, and `recode.NameConverter.visit_Call`

Expressions: literals, user variables, globals, assignment expressions (`:=`), side-effecting `tick`s, `+`,
conditional expressions, calls with positional and keyword arguments, tuples, subscripts.  The evaluator threads
an environment and an effect log (order and multiplicity of side effects are observable).  `rw` is the rewrite
of `recurse(a0, ..., an, k1=e1, ...)` into
`MAP[(type(__TMPk_0 := a0'), ..., ('k1', type(__TMPk_k1 := e1')), ...)](__TMPk_0, ..., k1=__TMPk_k1, ...)`
and of `call_next(...)` into the same thing with the key tuple starting with the current method's code object
(`MAP[(CODE, type(...), ...)](...)`), threading the temporary counter exactly as the code threads
`next(self.count)`: the call's own prefix first, then the positional arguments in order, then the keyword values in
order (nested calls after the outer one).
Reference semantics of the un-rewritten calls: the global `recurse` is the dispatcher (`G.dispatchObj`: looks the key of
the actual arguments up in `World.lookup` and applies the handler), the global `call_next` is a second dispatcher
(`G.nextObj`) which looks up `code World.code :: key` in the same table, `World.code` being the code of the method
whose body is being rewritten.
Variable names are structured (`user s` / `tmp k slot`): "user code does not use `__TMP...` names" is syntactic.
Not modelled: starred arguments and `**kwargs` (the real rewrite leaves calls with a starred positional argument
alone), the leading `self` of methods, the `__SUBTLER_TYPE` variant of `type`, a bare (uncalled) `call_next`
(`UsageError` at rewrite time; here `rw` leaves the name alone).
-/
set_option autoImplicit false
namespace Ovld.Rw

inductive KeyElt | pos (c : Nat) | kw (name : String) (c : Nat) | code (n : Nat)
deriving DecidableEq, Repr

inductive G | typeFn | mapObj | dispatchObj | nextObj | codeObj (n : Nat) | other (n : Nat)
deriving DecidableEq, Repr

inductive Val
  | int (n : Int)
  | ty (c : Nat)
  | kwTy (name : String) (c : Nat)
  | key (ks : List KeyElt)
  | fn (h : Nat)
  | g (x : G)
deriving DecidableEq, Repr

inductive Slot | pos (i : Nat) | kw (n : String)
deriving DecidableEq, Repr
inductive Name | user (s : String) | tmp (k : Nat) (s : Slot)
deriving DecidableEq, Repr

inductive Expr
  | lit (n : Int)
  | var (x : Name)
  | glob (x : String)
  | named (x : Name) (e : Expr)
  | tick (tag : String) (e : Expr)
  | add (a b : Expr)
  | ite (c a b : Expr)
  | call (f : Expr) (args : List Expr) (kws : List (String × Expr))
  | tuple (es : List Expr)
  | pair (name : String) (e : Expr)
  | subscript (e i : Expr)

abbrev Env := Name → Option Val
abbrev Log := List String
inductive Exn | nameError (x : String) | unbound (x : Name) | typeError | noMethod | user (n : Nat)
deriving DecidableEq, Repr

structure World where
  globals : String → Option Val
  classOf : Val → Nat
  lookup : List KeyElt → Except Exn Nat                       -- the table: key ↦ handler
  code : Nat                                                  -- code object of the method being rewritten (`call_next`)
  applyFn : Nat → List Val → List (String × Val) → Log → Except Exn Val × Log   -- user method bodies

abbrev M := Env → Log → (Except Exn Val × Env × Log)

def setVar (ρ : Env) (x : Name) (v : Val) : Env := fun y => if y = x then some v else ρ y

def toKeyElt : Val → Option KeyElt
  | .ty c => some (.pos c) | .kwTy n c => some (.kw n c) | .g (.codeObj n) => some (.code n) | _ => none

def keyOf (W : World) (args : List Val) (kws : List (String × Val)) : List KeyElt :=
  args.map (fun v => KeyElt.pos (W.classOf v)) ++ kws.map (fun (n, v) => KeyElt.kw n (W.classOf v))

def applyVal (W : World) (f : Val) (args : List Val) (kws : List (String × Val)) (l : Log) : Except Exn Val × Log :=
  match f with
  | .g .typeFn => match args, kws with
    | [v], [] => (.ok (.ty (W.classOf v)), l)
    | _, _ => (.error .typeError, l)
  | .g .dispatchObj => match W.lookup (keyOf W args kws) with
    | .ok h => W.applyFn h args kws l
    | .error e => (.error e, l)
  | .g .nextObj => match W.lookup (KeyElt.code W.code :: keyOf W args kws) with
    | .ok h => W.applyFn h args kws l
    | .error e => (.error e, l)
  | .fn h => W.applyFn h args kws l
  | _ => (.error .typeError, l)

mutual
def eval (W : World) : Expr → Env → Log → (Except Exn Val × Env × Log)
  | .lit n, ρ, l => (.ok (.int n), ρ, l)
  | .var x, ρ, l => match ρ x with | some v => (.ok v, ρ, l) | none => (.error (.unbound x), ρ, l)
  | .glob x, ρ, l => match W.globals x with | some v => (.ok v, ρ, l) | none => (.error (.nameError x), ρ, l)
  | .named x e, ρ, l => match eval W e ρ l with
    | (.ok v, ρ', l') => (.ok v, setVar ρ' x v, l')
    | r => r
  | .tick tag e, ρ, l => match eval W e ρ l with
    | (.ok v, ρ', l') => (.ok v, ρ', l' ++ [tag])
    | r => r
  | .add a b, ρ, l => match eval W a ρ l with
    | (.ok (.int x), ρ', l') => match eval W b ρ' l' with
      | (.ok (.int y), ρ'', l'') => (.ok (.int (x + y)), ρ'', l'')
      | (.ok _, ρ'', l'') => (.error .typeError, ρ'', l'')
      | r => r
    | (.ok _, ρ', l') => (.error .typeError, ρ', l')
    | r => r
  | .ite c a b, ρ, l => match eval W c ρ l with
    | (.ok (.int 0), ρ', l') => eval W b ρ' l'
    | (.ok _, ρ', l') => eval W a ρ' l'
    | r => r
  | .call f args kws, ρ, l => match eval W f ρ l with
    | (.ok fv, ρ1, l1) => match evalList W args ρ1 l1 with
      | (.ok avs, ρ2, l2) => match evalKws W kws ρ2 l2 with
        | (.ok kvs, ρ3, l3) => let (r, l4) := applyVal W fv avs kvs l3; (r, ρ3, l4)
        | (.error e, ρ3, l3) => (.error e, ρ3, l3)
      | (.error e, ρ2, l2) => (.error e, ρ2, l2)
    | (.error e, ρ1, l1) => (.error e, ρ1, l1)
  | .tuple es, ρ, l => match evalList W es ρ l with
    | (.ok vs, ρ', l') => match vs.mapM toKeyElt with
      | some ks => (.ok (.key ks), ρ', l')
      | none => (.error .typeError, ρ', l')
    | (.error e, ρ', l') => (.error e, ρ', l')
  | .pair name e, ρ, l => match eval W e ρ l with
    | (.ok (.ty c), ρ', l') => (.ok (.kwTy name c), ρ', l')
    | (.ok _, ρ', l') => (.error .typeError, ρ', l')
    | r => r
  | .subscript e i, ρ, l => match eval W e ρ l with
    | (.ok ev, ρ1, l1) => match eval W i ρ1 l1 with
      | (.ok iv, ρ2, l2) => match ev, iv with
        | .g .mapObj, .key ks => match W.lookup ks with
          | .ok h => (.ok (.fn h), ρ2, l2)
          | .error e => (.error e, ρ2, l2)
        | _, _ => (.error .typeError, ρ2, l2)
      | r => r
    | r => r
def evalList (W : World) : List Expr → Env → Log → (Except Exn (List Val) × Env × Log)
  | [], ρ, l => (.ok [], ρ, l)
  | e :: es, ρ, l => match eval W e ρ l with
    | (.ok v, ρ', l') => match evalList W es ρ' l' with
      | (.ok vs, ρ'', l'') => (.ok (v :: vs), ρ'', l'')
      | r => r
    | (.error e, ρ', l') => (.error e, ρ', l')
def evalKws (W : World) : List (String × Expr) → Env → Log → (Except Exn (List (String × Val)) × Env × Log)
  | [], ρ, l => (.ok [], ρ, l)
  | (n, e) :: es, ρ, l => match eval W e ρ l with
    | (.ok v, ρ', l') => match evalKws W es ρ' l' with
      | (.ok vs, ρ'', l'') => (.ok ((n, v) :: vs), ρ'', l'')
      | r => r
    | (.error e, ρ', l') => (.error e, ρ', l')
end

/-! ### NameConverter.visit_Call for `recurse(...)` / `call_next(...)` (no starred arguments), threading the temp counter -/

def typeCall (x : Name) (e : Expr) : Expr := .call (.glob "type") [.named x e] []

mutual
def rw : Expr → Nat → Expr × Nat
  | .lit n, k => (.lit n, k)
  | .var x, k => (.var x, k)
  | .glob x, k => (.glob x, k)
  | .named x e, k => let (e', k') := rw e k; (.named x e', k')
  | .tick t e, k => let (e', k') := rw e k; (.tick t e', k')
  | .add a b, k => let (a', k1) := rw a k; let (b', k2) := rw b k1; (.add a' b', k2)
  | .ite c a b, k => let (c', k1) := rw c k; let (a', k2) := rw a k1; let (b', k3) := rw b k2; (.ite c' a' b', k3)
  | .call f args kws, k =>
    match f with
    | .glob "recurse" =>
      -- tmp prefix index = k; children rewritten with counters from k+1 on: positional arguments, then keyword values
      let (args', k1) := rwArgs args k 0 (k + 1)
      let (kws', k2) := rwKws kws k k1
      (.call (.subscript (.glob "MAP") (.tuple (args' ++ kws'))) (tmpVars k 0 args) (tmpKws k kws), k2)
    | .glob "call_next" =>
      -- same, the key starts with the code object of the current method
      let (args', k1) := rwArgs args k 0 (k + 1)
      let (kws', k2) := rwKws kws k k1
      (.call (.subscript (.glob "MAP") (.tuple (.glob "CODE" :: (args' ++ kws')))) (tmpVars k 0 args) (tmpKws k kws), k2)
    | _ =>
      let (f', k0) := rw f k
      let (args', k1) := rwList args k0
      let (kws', k2) := rwKwList kws k1
      (.call f' args' kws', k2)
  | .tuple es, k => let (es', k') := rwList es k; (.tuple es', k')
  | .pair n e, k => let (e', k') := rw e k; (.pair n e', k')
  | .subscript e i, k => let (e', k1) := rw e k; let (i', k2) := rw i k1; (.subscript e' i', k2)
/-- type(__TMPk_i := arg') for each positional argument -/
def rwArgs : List Expr → Nat → Nat → Nat → List Expr × Nat
  | [], _, _, c => ([], c)
  | a :: as, k, i, c =>
    let (a', c1) := rw a c
    let (rest, c2) := rwArgs as k (i + 1) c1
    (typeCall (.tmp k (.pos i)) a' :: rest, c2)
/-- ('name', type(__TMPk_name := value')) for each keyword argument -/
def rwKws : List (String × Expr) → Nat → Nat → List Expr × Nat
  | [], _, c => ([], c)
  | (n, e) :: es, k, c =>
    let (e', c1) := rw e c
    let (rest, c2) := rwKws es k c1
    (.pair n (typeCall (.tmp k (.kw n)) e') :: rest, c2)
def rwList : List Expr → Nat → List Expr × Nat
  | [], c => ([], c)
  | e :: es, c => let (e', c1) := rw e c; let (rest, c2) := rwList es c1; (e' :: rest, c2)
def rwKwList : List (String × Expr) → Nat → List (String × Expr) × Nat
  | [], c => ([], c)
  | (n, e) :: es, c => let (e', c1) := rw e c; let (rest, c2) := rwKwList es c1; ((n, e') :: rest, c2)
def tmpVars : Nat → Nat → List Expr → List Expr
  | _, _, [] => []
  | k, i, _ :: as => .var (.tmp k (.pos i)) :: tmpVars k (i + 1) as
def tmpKws : Nat → List (String × Expr) → List (String × Expr)
  | _, [] => []
  | k, (n, _) :: es => (n, .var (.tmp k (.kw n))) :: tmpKws k es
end

/-! ### well-formed user code: never mentions temporaries, no keyword repeated in a call (a SyntaxError in Python) -/
def distinctNames : List String → Bool
  | [] => true
  | n :: ns => !ns.contains n && distinctNames ns

mutual
def userOnly : Expr → Bool
  | .lit _ => true
  | .var (.user _) => true
  | .var (.tmp _ _) => false
  | .glob _ => true
  | .named (.user _) e => userOnly e
  | .named (.tmp _ _) _ => false
  | .tick _ e => userOnly e
  | .add a b => userOnly a && userOnly b
  | .ite c a b => userOnly c && userOnly a && userOnly b
  | .call f args kws => userOnly f && userOnlyL args && userOnlyK kws && distinctNames (kws.map Prod.fst)
  | .tuple es => userOnlyL es
  | .pair _ e => userOnly e
  | .subscript e i => userOnly e && userOnly i
def userOnlyL : List Expr → Bool
  | [] => true
  | e :: es => userOnly e && userOnlyL es
def userOnlyK : List (String × Expr) → Bool
  | [] => true
  | (_, e) :: es => userOnly e && userOnlyK es
end

/-! ### expressions without any call of the globals `recurse` / `call_next` (left alone by `rw`) -/
def isRecName : Expr → Bool
  | .glob g => g == "recurse" || g == "call_next"
  | _ => false

mutual
def noRecCall : Expr → Bool
  | .lit _ => true
  | .var _ => true
  | .glob _ => true
  | .named _ e => noRecCall e
  | .tick _ e => noRecCall e
  | .add a b => noRecCall a && noRecCall b
  | .ite c a b => noRecCall c && noRecCall a && noRecCall b
  | .call f args kws => !isRecName f && noRecCall f && noRecCallL args && noRecCallK kws
  | .tuple es => noRecCallL es
  | .pair _ e => noRecCall e
  | .subscript e i => noRecCall e && noRecCall i
def noRecCallL : List Expr → Bool
  | [] => true
  | e :: es => noRecCall e && noRecCallL es
def noRecCallK : List (String × Expr) → Bool
  | [] => true
  | (_, e) :: es => noRecCall e && noRecCallK es
end

end Ovld.Rw
