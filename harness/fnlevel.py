"""Function-level adapter: build a real `Ovld` from a scenario descriptor, execute its operations, and report
canonical outcomes and traces (which method bodies were entered with which argument objects)."""

import graphlib
import linecache
import random

from common import use_repo
from corr_d import RANK, RankedSet

use_repo()

DEPTH_LIMIT = 6
_uid = [0]


class DepthExceeded(Exception):
    pass


class Val:
    """an argument object; `vid` is its identity in the scenario"""

    __slots__ = ("vid",)


def kind_of_exc(e):
    if isinstance(e, DepthExceeded):
        return ["depth"]
    if isinstance(e, graphlib.CycleError):
        return ["cycle"]
    if isinstance(e, KeyError):
        return ["keyerror"] if e.args and e.args[0] == () else ["raised"]
    msg = str(e)
    if isinstance(e, TypeError):
        if msg.startswith("No method in"):
            return ["nomethod"]
        if msg.startswith("Ambiguous resolution"):
            return ["ambiguous"]
        if "is declared in" in msg or "registered methods define `self`" in msg or "already a method" in msg:
            return ["config"]
        if any(p in msg for p in ("missing", "takes ", "unexpected keyword", "multiple values", "positional-only")):
            return ["bind"]
        return ["raised"]
    if isinstance(e, (AttributeError, IndexError, ValueError)):
        return ["raised"]
    if "is locked for modifications" in msg:
        return ["locked"]
    return ["exc", type(e).__name__, msg[:200]]


def py_subtype(t1, t2):
    """the documented subtype relation on classes and parametrised generics (typing.Any counts as object)"""
    import typing

    if t1 is typing.Any:
        t1 = object
    if t2 is typing.Any:
        t2 = object
    if t1 == t2:
        return True
    o1, o2 = typing.get_origin(t1), typing.get_origin(t2)
    if o1 is None and o2 is None:
        return issubclass(t1, t2)
    if o2 is None:
        return issubclass(o1, t2)  # a parametrised generic is below the classes its origin is below
    if o1 is None:
        return False  # a plain class is never below a parametrised generic
    if not issubclass(o1, o2):
        return False
    a1, a2 = typing.get_args(t1), typing.get_args(t2)
    return len(a1) == len(a2) and all(py_subtype(x, y) for x, y in zip(a1, a2))


class FnWorld:
    """realises the argument pool and the definitions of one function-level scenario"""

    def __init__(self, w, sc, ew=None):
        self.w = w
        self.ew = ew
        self.sc = sc
        self.log = []
        self.depth = [0]
        self.vals = []
        self.vid_of = {}
        for a in sc["args"]:
            v = self.make_value(a)
            self.vals.append(v)
            self.vid_of[id(v)] = a["vid"]
        self.defaults = {}
        self.defs_by_id = {d["id"]: d for d in sc["defs"]}
        self.accepts = []
        self.glb = None

    def make_value(self, a):
        k = a["kind"]
        if k == "inst":
            cls = self.w.classes[a["c"]]
            try:
                v = object.__new__(cls)
            except TypeError:
                v = cls()
            return v
        if k == "type":
            return self.w.ty(a["t"])
        if k == "val":
            from corr_e import POOL

            return POOL[a["pool"]]
        raise ValueError(a)

    def vid(self, obj):
        return self.vid_of.get(id(obj), -1)

    def build_fn(self, d, glb):
        """source of one method; parameter annotations and constants are globals of the generated module"""
        mid = d["id"]
        parts = []
        if d.get("isMethod"):
            parts.append("self")
        seen_slash = False
        npo = len([p for p in d["params"] if p["kind"] == "po"])
        names = []
        idx = 0
        star = False
        for p in d["params"]:
            nm = self.ident(p["name"])
            names.append((nm, p))
            tname = f"T_{mid}_{p['name']}"
            glb[tname] = (self.ew or self.w).ty(p["ty"])
            dflt = ""
            if not p["req"]:
                dname = f"D_{mid}_{p['name']}"
                dv = Val()
                glb[dname] = dv
                self.defaults[(mid, p["name"])] = dv
                dflt = f" = {dname}"
            if p["kind"] == "ko" and not star:
                parts.append("*")
                star = True
            parts.append(f"{nm}: {tname}{dflt}")
            idx += 1
            if p["kind"] == "po" and idx == npo:
                parts.append("/")
        pos_names = [nm for nm, p in names if p["kind"] != "ko"]
        kw_names = [(nm, p["name"]) for nm, p in names if p["kind"] == "ko"]
        body = d["body"]

        def src_of(s):
            if s[0] == "p":
                return pos_names[s[1]] if s[1] < len(pos_names) else None
            return f"C{s[1]}"

        lines = [f"def m{mid}({', '.join(parts)}):"]
        lines.append(f"    ENTER({mid}, ({', '.join(pos_names)}{',' if pos_names else ''}), {{{', '.join(f'{n}: {nm}' for nm, n in kw_names)}}})")
        if body[0] == "ret":
            lines.append(f"    return ('ret', {mid})")
        else:
            args = [a for a in (src_of(s) for s in body[1]) if a is not None]
            # "selfname": the method names an overloaded function (global N<k>) instead of writing recurse
            call = f"N{body[2]}" if body[0] == "selfname" else {"callNext": "call_next", "recurse": "recurse", "next": "F.next"}[body[0]]
            lines.append("    DOWN()")
            lines.append("    try:")
            inner = f"{call}({', '.join(args)})"
            # the same delegation written inside a nested code object now and then (lambda, generator expression):
            # the rewrite has to reach into nested code, and so has everything that shares rewritten code
            style = (mid * 7 + len(args) + len(self.sc["defs"])) % 4 if body[0] in ("recurse", "selfname") else 0
            if style == 1:
                inner = f"(lambda: {inner})()"
            elif style == 2:
                inner = f"next({inner} for _ in (0,))"
            lines.append(f"        return {inner}")
            lines.append("    finally:")
            lines.append("        UP()")
        src = "\n".join(lines) + "\n"
        _uid[0] += 1
        fname = f"<verif-fn-{_uid[0]}-m{mid}>"
        linecache.cache[fname] = (len(src), None, src.splitlines(True), fname)
        exec(compile(src, fname, "exec"), glb)
        fn = glb[f"m{mid}"]
        fn._mid = mid
        return fn

    def run(self):
        import ovld.typemap as tmod
        from ovld import Ovld, call_next, recurse

        sc = self.sc
        tmod.set = RankedSet
        tyobjs = [(self.ew or self.w).ty(d) for d in sc["tyrank_desc"]]
        tyrank = {}
        for i, t in enumerate(tyobjs):
            tyrank.setdefault(t, i)
        hrank = {mid: i for i, mid in enumerate(sc["hrank"])}

        def rank(x):
            if isinstance(x, tuple):
                x = x[0]
            c = getattr(x, "_conformer", None)
            if c is not None:
                tb = 0
                try:
                    tb = c.ovld.map.tiebreaks.get(x, 0)
                except Exception:
                    pass
                return (1, hrank.get(getattr(c.orig_fn, "_mid", None), len(hrank)) * 1024 + abs(tb))
            if hasattr(x, "_mid"):
                return (1, hrank.get(x._mid, len(hrank)))
            try:
                return (0, tyrank.get(x, len(tyrank)))
            except TypeError:
                return (0, len(tyrank))

        RANK["fn"] = rank
        # count invocations of MultiTypeMap.resolve (C20): instrumentation from outside, undone afterwards
        orig_resolve = tmod.MultiTypeMap.resolve
        counter = self.nres = [0]

        self.rkeys = []
        self.cur_ov = None

        def counting_resolve(mm, key):
            counter[0] += 1
            try:
                self.rkeys.append(self.canon_key(key))
            except Exception:  # noqa
                self.rkeys.append(("?", counter[0], id(key)))
            return orig_resolve(mm, key)

        tmod.MultiTypeMap.resolve = counting_resolve
        try:
            return self._run(Ovld, call_next, recurse)
        finally:
            RANK["fn"] = None
            tmod.MultiTypeMap.resolve = orig_resolve

    # parameter names the generated entry point also uses for its own variables and helpers: a user's parameter may
    # be called any of these
    # (ARG1.. / MISSING / KWARGS / TARGS / OVLD are hard-wired in the generated code: listed finding D46, not
    # generated here)
    ODD_NAMES = {0: "method", 1: "INJECT", 3: "cls", 4: "subtler_type", 10: "type", 11: "map"}

    def ident(self, n):
        if self.sc.get("odd_names"):
            return self.ODD_NAMES.get(n, f"n{n}")
        return f"n{n}"

    def canon_key(self, key):
        """the resolved key as the generated entry point would key the same arguments: at a position the entry point
        keys by type(x), a component type[X] (what subtler_type gives for a class-valued argument) stands for
        type(X).  Which positions those are is asked of the library's own argument analysis."""
        import typing

        an = getattr(self.cur_ov, "argument_analysis", None)
        out = []
        for i, c in enumerate(key):
            slot = i
            if isinstance(c, tuple):
                slot, c = c
            if an is not None and an.lookup_for(slot) is type and typing.get_origin(c) is type:
                c = type(typing.get_args(c)[0])
            out.append((slot, id(c)))
        return tuple(out)

    def _run(self, Ovld, call_next, recurse):
        sc = self.sc
        log = self.log
        depth = self.depth
        fw = self

        def ENTER(mid, pos, kw):
            d = fw.defs_by_id[mid]
            pp = [p for p in d["params"] if p["kind"] != "ko"]
            bad = []
            for p, v in zip(pp, pos):
                if fw.canon_val(mid, v) is not None and not fw.is_instance(v, mid, p["name"]):
                    bad.append(p["name"])
            for n, v in kw.items():
                if fw.canon_val(mid, v) is not None and not fw.is_instance(v, mid, n):
                    bad.append(n)
            fw.accepts.append([mid, bad])
            log.append([mid, [fw.canon_val(mid, v) for v in pos], sorted([n, fw.canon_val(mid, v)] for n, v in kw.items())])

        def DOWN():
            if depth[0] + 1 >= DEPTH_LIMIT:
                raise DepthExceeded()
            depth[0] += 1

        def UP():
            depth[0] -= 1

        glb = {"__name__": "verif_fnmod", "ENTER": ENTER, "DOWN": DOWN, "UP": UP, "call_next": call_next, "recurse": recurse}
        for i, v in enumerate(self.vals):
            glb[f"C{i}"] = v
        self.glb = glb
        ov = Ovld(allow_replacement=sc.get("allowReplacement", True))
        self.cur_ov = ov
        fns = {}
        for i, d in enumerate(sc["defs"]):
            fns[i] = self.build_fn(d, glb)
        out = []
        selfobj = Val()
        for op in sc["ops"]:
            del log[:]
            del self.accepts[:]
            depth[0] = 0
            self.nres[0] = 0
            del self.rkeys[:]
            preds0 = sum(self.w.pred_calls)
            try:
                if op[0] == "reg":
                    d = sc["defs"][op[1]]
                    ov.register(fns[op[1]], priority=d["prio"])
                    glb["F"] = ov.dispatch
                    out.append({"o": ["ok"]})
                elif op[0] == "unreg":
                    ov.unregister(fns[op[1]])
                    out.append({"o": ["ok"]})
                else:
                    pos = [self.vals[i] for i in op[1]]
                    kw = {self.ident(n): self.vals[i] for n, i in op[2]}
                    f = ov.dispatch
                    if len(out) % 3 == 0:
                        # read-only introspection between calls (inspect.signature, what help() and a
                        # Callable[...]-annotated parameter read): no change of the method set, so nothing may be
                        # rebuilt or resolved again because of it
                        try:
                            import inspect as _inspect

                            str(_inspect.signature(f))
                        except Exception:  # noqa
                            pass
                    if sc["defs"][0].get("isMethod"):
                        r = f(selfobj, *pos, **kw)
                    else:
                        r = f(*pos, **kw)
                    o = ["ran", r[1]] if isinstance(r, tuple) and r and r[0] == "ret" else ["returned", repr(r)[:100]]
                    out.append({"o": o, "t": self.canon_log(), "nres": self.nres[0], "rkeys": list(self.rkeys), "npred": sum(self.w.pred_calls) - preds0, "raw": [list(e) for e in log], "acc": [list(a) for a in self.accepts]})
            except Exception as e:  # noqa
                k = kind_of_exc(e)
                if op[0] == "call":
                    out.append({"o": k, "t": self.canon_log(), "nres": self.nres[0], "raw": [list(e) for e in log], "acc": [list(a) for a in self.accepts], "msg": str(e)[:160]})
                else:
                    out.append({"o": k})
        return out

    def is_instance(self, v, mid, pname):
        """the second witness of C01: Python's own isinstance against the declared annotation object"""
        t = self.glb[f"T_{mid}_{pname}"]
        saved = list(self.w.pred_calls)  # the harness's own isinstance must not count as a consultation (C20)
        import typing

        if t is type:
            t = type[object]  # bare `type` is documented to behave as type[object]
        if typing.get_origin(t) is type:
            # C14, documented rule: a passed type matches type[T] exactly when it is a subtype of T
            if not (isinstance(v, type) or typing.get_origin(v) is not None):
                return False
            return py_subtype(v, typing.get_args(t)[0])
        if self.vid_of.get(id(v)) is not None and self.sc["args"][self.vid_of[id(v)]].get("kind") == "type":
            # a passed type is keyed as type[v], which is below `object` only among the plain classes (a runtime
            # protocol may hold of the class object itself; that is not what type-valued dispatch is about)
            return t is object
        try:
            try:
                return isinstance(v, t)
            except TypeError:
                from ovld.mro import subclasscheck

                return subclasscheck(type(v), t)
        finally:
            self.w.pred_calls[:] = saved

    def canon_val(self, mid, v):
        """vid of a supplied object; None for this method's own default; -2 for anything else (another method's
        default, the MISSING placeholder, ...)"""
        vid = self.vid_of.get(id(v))
        if vid is not None:
            return vid
        for (m, n), dv in self.defaults.items():
            if dv is v:
                return None if m == mid else -2
        return -2

    def canon_log(self):
        out = []
        for mid, pos, kw in self.log:
            # the model's trace lists forwarded values only: drop the method's own defaults
            out.append([mid, [v for v in pos if v is not None], [[n, v] for n, v in kw if v is not None]])
        return out
