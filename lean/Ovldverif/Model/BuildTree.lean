import Ovldverif.Model.Build
/-!
# Layer I, continued: a function and a linked variant under failing builds

`Model/Build.lean` is about one function.  Here a function `p` has one *linked variant* `c`
(`Ovld(mixins=[p], linkback=True)`, also what `@extend_super` and `variant(linkback=True)` create): the variant is
built from the function's definitions plus its own (`own`), and every change of the function is propagated to it by
`Ovld._update` (core.py):

```
def _update(self):
    try:
        if self._compiled:
            self.compile()
    finally:
        for child in self.children:
            child._update()
```

(this is the code after the `fix:` for finding D41; since the `fix:` for finding D47 — several variants,
`Model/BuildForest.lean` — the loop over the variants also survives a variant that cannot be rebuilt, which for ONE
variant is the same behaviour; `updateOld` below is the code before it: the variants were
updated only when the function's own rebuild had gone through).

Faults: a *natural* failure is a method that cannot be built (`Cfg`); an *interrupt* is abstracted to one bit per
build — "an asynchronous exception arrives somewhere inside this `compile`" — because the state `compile` leaves
behind after its handler is the same wherever inside it the exception arrived (`Build.compile` with budget `some 0`).
The few instructions *between* two builds (finding D34) are not fault points of this model.
-/
set_option autoImplicit false
namespace Ovld.Build

structure T where
  /-- the function -/
  p : S := {}
  /-- the linked variant; `c.defns` mirrors the definitions it is built from: `p.defns ++ own` -/
  c : S := {}
  /-- the variant's own definitions -/
  own : List Nat := []
deriving DecidableEq, Repr

/-- the definitions the variant is built from (`Ovld.defns` merges the mixins' definitions with its own) -/
def T.eff (t : T) : List Nat := t.p.defns ++ t.own

/-- the variant as `compile` sees it -/
def T.view (t : T) : S := { t.c with defns := t.eff }

def intr (i : Bool) : Option Nat := if i then some 0 else none

/-- `Ovld._update` of the variant (it has no variants of its own) -/
def updateC (cfg : Cfg) (t : T) (ic : Bool) : T × Bool :=
  if t.c.compiled then
    match compile cfg t.view (intr ic) with
    | (s', ok, _) => ({ t with c := s' }, ok)
  else ({ t with c := t.view }, true)

/-- `Ovld._update` of the function: its own rebuild, then — in a `finally` clause — the variant's -/
def updateP (cfg : Cfg) (t : T) (ip ic : Bool) : T × Out :=
  let (p', okP) :=
    if t.p.compiled then
      match compile cfg t.p (intr ip) with
      | (s', ok, _) => (s', ok)
    else (t.p, true)
  let (t', okC) := updateC cfg { t with p := p' } ic
  (t', if okP && okC then .done else .error)

/-- the code before the `fix:` for D41: the variant is updated only after a successful rebuild of the function -/
def updateOld (cfg : Cfg) (t : T) (ip ic : Bool) : T × Out :=
  let (p', okP) :=
    if t.p.compiled then
      match compile cfg t.p (intr ip) with
      | (s', ok, _) => (s', ok)
    else (t.p, true)
  if okP then
    let (t', okC) := updateC cfg { t with p := p' } ic
    (t', if okC then .done else .error)
  else ({ t with p := p', c := { t.c with defns := p'.defns ++ t.own } }, .error)

inductive TOp
  /-- `p.register(d)`; `ip` / `ic`: an interrupt arrives inside the rebuild of the function / of the variant -/
  | regP (d : Nat) (ip ic : Bool)
  | unregP (d : Nat) (ip ic : Bool)
  /-- `c.register(d)` -/
  | regC (d : Nat) (ic : Bool)
  /-- a call of the function / of the variant, through the object or through the dispatch function -/
  | callP (r : Route) (ip : Bool)
  | callC (r : Route) (ic : Bool)
deriving Repr

def addDef (ds : List Nat) (d : Nat) : List Nat := if ds.contains d then ds else ds ++ [d]

/-- one operation with a given `_update` of the function (the current one or the one before the fix) -/
def stepWith (upd : Cfg → T → Bool → Bool → T × Out) (cfg : Cfg) (t : T) : TOp → T × Out
  | .regP d ip ic => upd cfg { t with p := { t.p with defns := addDef t.p.defns d } } ip ic
  | .unregP d ip ic => upd cfg { t with p := { t.p with defns := t.p.defns.filter (· != d) } } ip ic
  | .regC d ic =>
    match updateC cfg { t with own := addDef t.own d } ic with
    | (t', ok) => (t', if ok then .done else .error)
  | .callP r ip =>
    match call cfg t.p r (intr ip) with
    | (p', o) => ({ t with p := p' }, o)
  | .callC r ic =>
    match call cfg t.view r (intr ic) with
    | (c', o) => ({ t with c := c' }, o)

def stepT := stepWith updateP
def stepOld := stepWith updateOld

def runT (cfg : Cfg) (t : T) : List TOp → T
  | [] => t
  | op :: rest => runT cfg (stepT cfg t op).1 rest

def runOld (cfg : Cfg) (t : T) : List TOp → T
  | [] => t
  | op :: rest => runOld cfg (stepOld cfg t op).1 rest

/-- a function object is either not in service (first-call trampoline, flagged not built) or serves exactly the
    definitions `ds` it is to be built from -/
def safeS (s : S) (ds : List Nat) : Bool :=
  (s.entry.isNone && !s.compiled) || (s.compiled && s.entry == some ds && s.table == ds)

/-- both the function and its variant -/
def T.safe (t : T) : Bool := safeS t.p t.p.defns && safeS t.c t.eff && t.c.defns == t.eff

end Ovld.Build
