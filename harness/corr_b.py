"""Correspondence layer B + the C15 / C14 oracles on annotation spellings.

Layer B: generated annotation trees are realised as Python annotation objects (typing.Union / `|` / tuples,
Optional, Annotated, strings, Any / missing / object, bare type, type[...], Literal, tuple[...], list[...] vs
typing.List[...], dict[...] vs typing.Dict[...]), passed through the real `normalize_type`, translated back into
the model's normal forms and compared with `Ovld.Norm.normalize` (Model/Normalize.lean); `subtler_type` likewise.

Oracle C15 (model independent): a method set is built twice, once with an annotation and once with an equivalent
respelling of it; every argument of a corpus must have the same outcome on both.
Oracle C11 (Literal through `typing.Literal`, i.e. with the library's own default bound): a value matches
exactly when it equals one of the listed values."""

import inspect
import json
import random
import sys
import typing

from common import run_driver, use_repo
from world import C_BOOL, C_DICT, C_INT, C_LIST, C_NONE, C_OBJECT, C_STR, C_TUPLE, C_TYPE, NBUILTIN, make_world

use_repo()

_META = [0]
LITS = [0, 1, 2, 3, "a", "b", "ab", 2.5, True, False, None]  # bool below int: values of distinct but related types
H_SEQ, H_COLL, H_MAP = 0, 1, 2


def lit_cls(w, i):
    v = LITS[i]
    return {int: C_INT, bool: C_BOOL, str: C_STR, type(None): C_NONE}.get(type(v), w.float_id)


class AnnGen:
    def __init__(self, w, rng):
        self.w, self.rng = w, rng
        self.user = list(range(NBUILTIN, w.n))
        self.names = {}

    def cls(self):
        if self.user and self.rng.random() < 0.7:
            return ["cls", self.rng.choice(self.user)]
        return ["cls", self.rng.choice([C_INT, C_STR, C_OBJECT, C_LIST, C_DICT, C_TUPLE])]

    def rawarg(self, depth):
        """what may stand inside type[...]: classes, Any, parametrised generics, type[...]"""
        r = self.rng.random()
        if depth <= 0 or r < 0.5:
            return self.cls()
        if r < 0.6:
            return ["any"]
        if r < 0.75:
            return ["gen", C_LIST, [self.rawarg(depth - 1)]]
        if r < 0.9:
            return ["gen", C_TUPLE, [self.rawarg(depth - 1) for _ in range(self.rng.choice([1, 2, 3]))]]
        return ["gen", C_DICT, [self.rawarg(depth - 1), self.rawarg(depth - 1)]]

    def related(self):
        """a class together with one of its ancestors or descendants, when the hierarchy has one"""
        tb = self.w.tables()["sub"]
        pairs = [(c, d) for c in self.user for d in list(self.user) + [C_OBJECT] if c != d and d < len(tb) and tb[c][d]]
        if pairs and self.rng.random() < 0.7:
            c, d = self.rng.choice(pairs)
            return [["cls", c], ["cls", d]]
        return [self.cls(), self.cls()]

    def member(self, depth):
        """a union member that every spelling of a union can hold"""
        r = self.rng.random()
        if depth <= 0 or r < 0.55:
            return self.cls()
        if r < 0.65:
            return ["cls", C_NONE]
        if r < 0.75:
            return ["literal", self.litvals()]
        if r < 0.85:
            return ["typeOf", self.rawarg(1)]
        return ["gen", C_LIST, [self.cls()]]

    def litvals(self):
        n = self.rng.choice([1, 1, 2, 2, 3, 4])
        # `None` is rewritten by typing (Literal[None] is NoneType in unions); keep it out
        return self.rng.sample(range(len(LITS) - 1), n)

    def gen(self, depth):
        rng = self.rng
        r = rng.random()
        if depth <= 0 or r < 0.2:
            return rng.choice([self.cls(), self.cls(), ["any"], ["missing"], ["bareType"]])
        if r < 0.4:
            k = rng.choice([2, 2, 3])
            ms = []
            if rng.random() < 0.5:
                for m in self.related():
                    if m not in ms:
                        ms.append(m)
            def same_member(a, b):
                # typing drops a union member that equals an earlier one, and Literal objects are equal when their
                # value SETS are (Literal['ab', 2.5] == Literal[2.5, 'ab']): such a pair is one member
                return a == b or (a[0] == "literal" and b[0] == "literal" and sorted(a[1]) == sorted(b[1]))

            tries = 0
            while len(ms) < k and tries < 50:
                tries += 1
                m = self.member(depth - 1)
                if not any(same_member(m, x) for x in ms):
                    ms.append(m)
            return [rng.choice(["unionT", "pipe", "tup"]), ms]
        if r < 0.5:
            a = self.gen_inner(depth - 1)
            while a[0] == "tup":
                a = self.gen_inner(depth - 1)
            return ["annotated", a]
        if r < 0.6:
            a = self.gen_inner(depth - 1)
            s = f"S{len(self.names)}"
            self.names[s] = a
            return ["name", s]
        if r < 0.72:
            return ["literal", self.litvals()]
        if r < 0.8:
            return ["typeOf", self.rawarg(2)]
        if r < 0.88:
            return ["tupleG", [self.cls() for _ in range(rng.choice([1, 2, 2]))]]
        if r < 0.95:
            return ["gen", C_LIST, [self.member(0)]]
        return ["gen", C_DICT, [self.cls(), self.cls()]]

    def gen_inner(self, depth):
        a = self.gen(depth)
        while a[0] in ("missing", "name"):
            a = self.gen(depth)
        return a


class Speller:
    """Ann -> Python annotation object; `alt` picks the alternative spelling where there is one"""

    def __init__(self, w, names, rng=None):
        self.w, self.names, self.rng = w, names, rng
        self.glb = {}

    def obj(self, a, alt=False):
        k = a[0]
        w = self.w
        if k == "missing":
            return inspect._empty
        if k == "any":
            return typing.Any
        if k == "cls":
            return type(None) if a[1] == C_NONE else w.classes[a[1]]
        if k == "bareType":
            return type
        if k == "typeOf":
            return type[self.obj(a[1])]
        if k == "name":
            self.glb[a[1]] = self.obj(self.names[a[1]])
            return a[1]
        if k == "annotated":
            # unique metadata: typing caches Annotated[X, m] by (X, m) and unions compare as *sets*, so
            # Annotated[Union[A, B], m] would come back as an earlier Annotated[Union[B, A], m]
            _META[0] += 1
            return typing.Annotated[self.obj(a[1]), f"meta{_META[0]}"]
        if k in ("unionT", "pipe", "tup"):
            ms = [self.obj(m) for m in a[1]]
            if k == "tup":
                return tuple(ms)
            if k == "unionT":
                return typing.Union[tuple(ms)]
            r = ms[0]
            for m in ms[1:]:
                r = r | m
            return r
        if k == "literal":
            return typing.Literal[tuple(LITS[i] for i in a[1])]
        if k == "tupleG":
            ms = tuple(self.obj(m) for m in a[1])
            return typing.Tuple[ms] if alt else tuple[ms]
        if k == "gen":
            ms = tuple(self.obj(m) for m in a[2])
            if a[1] == C_LIST:
                return typing.List[ms] if alt else list[ms]
            if a[1] == C_TUPLE:
                return typing.Tuple[ms] if alt else tuple[ms]
            return typing.Dict[ms] if alt else dict[ms]
        raise ValueError(a)


def back_ann(w, o):
    """the verbatim argument of type[...] as an Ann"""
    if o is typing.Any:
        return ["any"]
    origin = typing.get_origin(o)
    if origin is type:
        return ["typeOf", back_ann(w, typing.get_args(o)[0])]
    if origin is not None:
        return ["gen", cls_index(w, origin), [back_ann(w, x) for x in typing.get_args(o)]]
    if o is type(None):
        return ["cls", C_NONE]
    return ["cls", cls_index(w, o)]


def back(w, t, handlers):
    """a real normalised annotation -> the model's normal form"""
    from ovld.dependent import Equals, ParametrizedDependentType, ProductType
    from ovld.types import Union

    if isinstance(t, Equals):
        return ["lit", [lit_index(v) for v in t.parameters], back(w, t.bound, handlers)]
    if isinstance(t, ProductType):
        return ["prod", [back(w, x, handlers) for x in t.parameters]]
    if isinstance(t, ParametrizedDependentType):
        return ["fast", handlers[type(t).__name__], [back(w, x, handlers) for x in t.parameters], cls_index(w, t.bound)]
    if isinstance(t, type(Union[int, str])) and type(getattr(t, "_handler", None)).__name__ == "Union":
        return ["union", [back(w, x, handlers) for x in t._handler.types]]
    if typing.get_origin(t) is type:
        return ["rawType", back_ann(w, typing.get_args(t)[0])]
    if t is type(None):
        return ["cls", C_NONE]
    if isinstance(t, type) and t in w.classes:
        return ["cls", w.classes.index(t)]
    return ["unknown", repr(t)[:60]]


def cls_index(w, c):
    """index of a class of this world; a class that does not belong to it (what a stale cache of the library may
    hand back) is reported as such instead of raising"""
    try:
        return w.classes.index(c)
    except ValueError:
        return ["foreign", getattr(c, "__name__", repr(c))[:40]]


def lit_index(v):
    for i, x in enumerate(LITS):
        if type(x) is type(v) and x == v:
            return i
    return -1


def norm_real(w, names, a, alt=False):
    from ovld.types import normalize_type

    sp = Speller(w, names)
    o = sp.obj(a, alt)

    def fn():
        pass

    fn = type(fn)(fn.__code__, dict(sp.glb))
    try:
        return normalize_type(o, fn)
    except NameError:
        return "name"


def run_corr(seed, n):
    from ovld.utils import subtler_type

    rng = random.Random(seed)
    diffs = []
    stats = {"annotations": 0, "alt spellings": 0, "subtler": 0}
    hist = {}
    scs, meta = [], []
    handlers = {"SequenceFastCheck": H_SEQ, "CollectionFastCheck": H_COLL, "MappingFastCheck": H_MAP}
    for _ in range(n):
        w = make_world(rng, nuser=rng.randint(2, 4))
        w.classes = list(w.classes) + [float]
        w.float_id = len(w.classes) - 1
        g = AnnGen(w, rng)
        anns = [g.gen(rng.randint(1, 3)) for _ in range(rng.randint(3, 8))]
        reals = []
        for a in anns:
            hist[a[0]] = hist.get(a[0], 0) + 1
            r = norm_real(w, g.names, a)
            reals.append(["error", "name"] if isinstance(r, str) else back(w, r, handlers))
            stats["annotations"] += 1
            if json.dumps(a).count('"gen"') + json.dumps(a).count('"tupleG"'):
                r2 = norm_real(w, g.names, a, alt=True)
                stats["alt spellings"] += 1
                b2 = ["error", "name"] if isinstance(r2, str) else back(w, r2, handlers)
                if canon_nf(b2) != canon_nf(reals[-1]):
                    diffs.append({"layer": "B", "what": "builtin and typing spelling of a generic normalise differently", "ann": a, "builtin": reals[-1], "typing": b2})
        # type-valued and ordinary arguments through subtler_type
        args, rsub = [], []
        for _ in range(rng.randint(2, 6)):
            r = rng.random()
            if r < 0.3:
                c = rng.choice(g.user or [C_INT])
                args.append(["inst", c])
                try:
                    v = object.__new__(w.classes[c])
                except TypeError:
                    v = w.classes[c]()
                o = subtler_type(v)
                rsub.append(["cls", w.classes.index(o)] if o in w.classes else ["other"])
            elif r < 0.4:
                args.append(["any"])
                rsub.append(back_ty(w, subtler_type(typing.Any)))
            else:
                t = g.rawarg(2)
                if t == ["any"]:
                    continue
                args.append(["type", ann_to_ty(t)])
                rsub.append(back_ty(w, subtler_type(Speller(w, {}).obj(t))))
            stats["subtler"] += 1
        names = [[s, a] for s, a in g.names.items()]
        scs.append({"layer": "B", "cT": C_TYPE, "anns": anns, "args": args,
                    "env": {"globals": names, "valcls": [lit_cls(w, i) for i in range(len(LITS))], "handler": [[C_LIST, H_SEQ], [C_DICT, H_MAP]],
                            "sub": [[bool(issubclass(a_, b_)) for b_ in w.classes] for a_ in w.classes],
                            "mro": [[w.classes.index(x) for x in c_.__mro__ if x in w.classes] for c_ in w.classes]}})
        meta.append((anns, reals, args, rsub))
    res = run_driver(scs)
    for r, (anns, reals, args, rsub) in zip(res, meta):
        if "error" in r:
            diffs.append({"layer": "B", "what": "driver-error", "detail": r["error"]})
            continue
        for a, real, m in zip(anns, reals, r["norm"]):
            if canon_nf(m) != canon_nf(real):
                diffs.append({"layer": "B", "what": "normal form", "ann": a, "model": m, "impl": real})
        for a, real, m in zip(args, rsub, r["subtler"]):
            if m != real:
                diffs.append({"layer": "B", "what": "subtler_type", "arg": a, "model": m, "impl": real})
    return stats, hist, diffs


def canon_nf(t):
    """typing caches Literal objects by value *sets* (Literal[1, 'a'] == Literal['a', 1]), so a Literal nested in
    another typing construct may come back with the order of an earlier, equal one: compare literals unordered"""
    if isinstance(t, list) and t and t[0] == "lit":
        return ["lit", sorted(t[1]), t[2]]
    if isinstance(t, list):
        return [canon_nf(x) for x in t]
    return t


def ann_to_ty(a):
    if a[0] == "cls":
        return a
    if a[0] == "any":
        return ["cls", 0]
    if a[0] == "gen":
        return ["gen", a[1], [ann_to_ty(x) for x in a[2]]]
    if a[0] == "typeOf":
        return ["gen", C_TYPE, [ann_to_ty(a[1])]]
    raise ValueError(a)


def back_ty(w, o):
    if o is typing.Any:
        return ["cls", 0]
    origin = typing.get_origin(o)
    if origin is not None:
        return ["gen", cls_index(w, origin), [back_ty(w, x) for x in typing.get_args(o)]]
    if o is type(None):
        return ["cls", C_NONE]
    return ["cls", w.classes.index(o)] if o in w.classes else ["other"]


# ---------------------------------------------------------------- metamorphic oracle (C15) and Literal exactness (C11)


def respell(rng, a, names):
    """an equivalent spelling of the annotation (None when there is none to offer)"""
    k = a[0]
    opts = []
    if k in ("unionT", "pipe", "tup"):
        others = [x for x in ("unionT", "pipe", "tup") if x != k]
        opts.append(lambda: [rng.choice(others), list(a[1])])
        opts.append(lambda: [k, rng.sample(a[1], len(a[1]))])
        opts.append(lambda: [rng.choice(others), rng.sample(a[1], len(a[1]))])
    if k in ("any", "missing") or a == ["cls", C_OBJECT]:
        opts.append(lambda: rng.choice([x for x in (["any"], ["missing"], ["cls", C_OBJECT]) if x != a]))
    if k == "literal" and len(a[1]) > 1:
        opts.append(lambda: ["literal", rng.sample(a[1], len(a[1]))])
    if k not in ("missing", "name", "tup"):
        opts.append(lambda: ["annotated", a])
    if k not in ("missing", "name"):

        def named():
            s = f"R{len(names)}"
            names[s] = a
            return ["name", s]

        opts.append(named)
    if k == "bareType":
        opts.append(lambda: ["typeOf", ["cls", C_OBJECT]])
        opts.append(lambda: ["typeOf", ["any"]])
    if k in ("gen", "tupleG"):
        opts.append(lambda: ("ALT", a))
    if not opts:
        return None
    return rng.choice(opts)()


def corpus(w, rng):
    vals = []
    for c in range(NBUILTIN, w.n):
        try:
            vals.append(object.__new__(w.classes[c]))
        except TypeError:
            pass
    vals += list(LITS) + [True, [], [1], ["a"], (1,), (1, "a"), {}, {"a": 1}, int, str, object, list[int], typing.Any]
    vals += [w.classes[c] for c in range(NBUILTIN, w.n)]
    return vals


def build_fn(w, names, anns_alts, companions):
    from ovld import Ovld

    ov = Ovld()
    for i, (a, alt) in enumerate(anns_alts + [(c, False) for c in companions]):
        sp = Speller(w, names)
        o = sp.obj(a, alt)
        glb = dict(sp.glb)
        src = f"def m{i}(x): return {i}\n" if o is inspect._empty else f"def m{i}(x: ANN): return {i}\n"
        glb["ANN"] = o
        exec(src, glb)
        ov.register(glb[f"m{i}"])
    return ov


def outcome(ov, v):
    try:
        return ("ran", ov(v))
    except TypeError as e:
        m = str(e)
        return ("nomethod",) if m.startswith("No method") else ("ambiguous",) if m.startswith("Ambiguous") else ("typeerror", m[:60])
    except Exception as e:  # noqa
        return ("exc", type(e).__name__)


def exotic_literals(rng, orc):
    """C11 on Literal values that are not plain ints / strs: enum members with an int or str mix-in, instances of
    subclasses of int / str (with a repr of their own), non-finite and extreme floats, big ints, strings with quotes
    and line breaks.  Real code only: a function with Literal methods and an `object` fallback must run a Literal
    method exactly for the values `isinstance(value, <the type the library built for the annotation>)` accepts."""
    import enum
    import typing

    from ovld import Ovld
    from ovld.types import normalize_type

    class Color(enum.IntEnum):
        RED = 1
        BLUE = 2

    class Tag(str, enum.Enum):
        A = "a"
        B = "b"

    class S(str):
        def __repr__(self):
            return "S<" + str.__str__(self) + ">"

    class MyInt(int):
        pass

    vals = [Color.RED, Color.BLUE, Tag.A, S("k"), MyInt(7), float("inf"), float("-inf"), 1e100, -0.0, 10**30, True, "quo'te\"s", "line\nbreak", 3, "b"]
    probes = vals + [1, 2, "a", "k", 7, 2.5, None, [], 0]
    o = orc("C11")
    for _ in range(6):
        nm = rng.choice([1, 1, 2, 4, 5])
        pool = list(vals)
        rng.shuffle(pool)
        groups = [[pool.pop()] + ([pool.pop()] if rng.random() < 0.3 and len(pool) > nm else []) for _ in range(nm)]
        ov = Ovld()
        tys = []
        try:
            for i, gvals in enumerate(groups):
                ann = typing.Literal[tuple(gvals)]
                glb = {"ANN": ann}
                exec(f"def m{i}(x: ANN): return {i}\n", glb)
                ov.register(glb[f"m{i}"])
                tys.append(normalize_type(ann, glb[f"m{i}"]))
            glb = {}
            exec("def other(x: object): return -1\n", glb)
            ov.register(glb["other"])
        except Exception as e:  # noqa
            o["viol"].append({"law": "a function with Literal methods over unusual values cannot be defined", "error": f"{type(e).__name__}: {e}"[:200], "values": repr(groups)[:200], "kind": "exotic-literal"})
            continue
        for v in probes:
            o["n"] += 1
            acc = [i for i, T in enumerate(tys) if isinstance(v, T)]
            if acc:
                o["nontrivial"] += 1
            got = outcome(ov, v)
            # (several accepting methods: the more specific bound wins or the call is ambiguous — C10's business)
            ok = (got == ("ran", acc[0])) if len(acc) == 1 else (got == ("ran", -1)) if not acc else (got[0] == "ambiguous" or (got[0] == "ran" and got[1] in acc))
            if not ok:
                o["viol"].append({"law": "a Literal method over unusual values does not run exactly for the values isinstance accepts", "values": repr(groups)[:200], "value": repr(v)[:60], "isinstance_accepts": acc, "outcome": list(got), "kind": "exotic-literal"})
                break


def run_oracles(seed, n, out):
    rng = random.Random(seed)

    def orc(name):
        return out["oracles"].setdefault(name, {"n": 0, "nontrivial": 0, "viol": [], "known": {}})

    exotic_literals(rng, orc)

    for _ in range(n):
        w = make_world(rng, nuser=rng.randint(2, 4))
        w.classes = list(w.classes) + [float]
        w.float_id = len(w.classes) - 1
        g = AnnGen(w, rng)
        a = g.gen(rng.randint(1, 3))
        comp = [g.gen_inner(1) for _ in range(rng.randint(0, 3))]
        comp = [c for c in comp if c != a]
        names = dict(g.names)
        b = respell(rng, a, names)
        if b is None:
            continue
        alt = False
        if isinstance(b, tuple):
            alt, b = True, b[1]
        kind = "typing-alias" if alt else (b[0] if b[0] != a[0] else "reordered " + a[0])
        out["hist"]["respelling: " + a[0] + " -> " + kind] = out["hist"].get("respelling: " + a[0] + " -> " + kind, 0) + 1
        desc = {"world": w.desc, "ann": a, "respelled": b, "alt": alt, "companions": comp, "names": names}
        try:
            f1 = build_fn(w, names, [(a, False)], comp)
            f2 = build_fn(w, names, [(b, alt)], comp)
        except Exception as e:  # noqa
            orc("C15")["viol"].append({"law": "registering the respelled method set fails", "error": f"{type(e).__name__}: {e}"[:200], **desc})
            continue
        o = orc("C15")
        # the laws proved for the model (C15_union_order_subclass / _typeorder, equal normal forms otherwise),
        # evaluated on the real code: against every class, both spellings are applicable alike and compare alike
        from ovld.mro import subclasscheck, typeorder

        A, B = norm_real(w, names, a), norm_real(w, names, b, alt)
        lawbad = None
        for c in w.classes:
            o["n"] += 1
            try:
                if subclasscheck(c, A) != subclasscheck(c, B):
                    lawbad = ("subclasscheck", c)
                elif typeorder(A, c) is not typeorder(B, c) or typeorder(c, A) is not typeorder(c, B):
                    lawbad = ("typeorder", c)
            except Exception as e:  # noqa
                lawbad = ("raised " + type(e).__name__, c)
            if lawbad:
                break
        if lawbad:
            o["viol"].append({"law": "equivalent spellings are not applicable / ordered alike against a class", "relation": lawbad[0], "class": repr(lawbad[1])[:60], "kind": "respell", **desc})
            continue
        for v in corpus(w, rng):
            r1, r2 = outcome(f1, v), outcome(f2, v)
            o["n"] += 1
            if r1[0] == "ran":
                o["nontrivial"] += 1
            if r1 != r2:
                wit = {**desc, "kind": "respell", "value": repr(v)[:60], "outcome_original": r1, "outcome_respelled": r2}
                if order_depends_on_member_order(w, names, a, b, alt, comp):
                    e = o["known"].setdefault("D3:member-order-changes-typeorder", {"count": 0, "witness": wit})
                    e["count"] += 1
                else:
                    o["viol"].append({"law": "equivalent spellings of an annotation dispatch differently", **wit})
                break
        # C11, whatever the annotation normalises to (Literal, tuple[...] products, the shallow list / dict element
        # checks, unions of those): alone in a function, the annotated method runs exactly for the values that
        # isinstance(value, T) accepts — the generated checking code against the type's own check
        T = A
        try:
            fi = build_fn(w, names, [(a, False)], [])
        except Exception:  # noqa
            fi = None
        if fi is not None and a not in (["cls", C_OBJECT], ["any"], ["missing"]):
            o11 = orc("C11")
            for v in corpus(w, rng):
                if isinstance(v, type) or typing.get_origin(v) is not None or v is typing.Any:
                    continue  # passed types are C14's subject (a runtime protocol may hold of a class object itself)
                try:
                    exp = isinstance(v, T)
                except TypeError:
                    continue  # type[...] and parametrised generics are not isinstance targets
                r = outcome(fi, v)
                o11["n"] += 1
                if exp:
                    o11["nontrivial"] += 1
                if (r == ("ran", 0)) != exp or r[0] not in ("ran", "nomethod"):
                    o11["viol"].append({"law": "the annotated method runs exactly for the values isinstance accepts", "value": repr(v)[:60], "isinstance": exp, "outcome": r, "kind": "respell", **desc})
                    break
        # Literal exactness through typing.Literal (C11): alone in a function, a Literal matches exactly its values
        if a[0] == "literal":
            o11 = orc("C11")
            fl = build_fn(w, names, [(a, False)], [])
            want = [LITS[i] for i in a[1]]
            for v in list(LITS) + [True, False, 4, "c", 1.0]:
                o11["n"] += 1
                exp = any(type(x) is type(v) and x == v for x in want) or any((x == v) and isinstance(v, type(x)) for x in want)
                got = outcome(fl, v)[0] == "ran"
                if exp:
                    o11["nontrivial"] += 1
                if got != exp and not (not exp and any(x == v for x in want if x is not None and v is not None)):
                    o11["viol"].append({"law": "Literal does not match exactly its values", "value": repr(v), "values": want, "got": got, **desc})
                    break


def order_depends_on_member_order(w, names, a, b, alt, comp):
    """cause analysis on the real code: does typeorder between the annotation and a companion change when only the
    order of the members of a union / the values of a Literal changes? (finding D3: two __type_order__ hooks facing
    each other answer from their own side)"""
    from ovld.mro import typeorder

    A, B = norm_real(w, names, a), norm_real(w, names, b, alt)
    Cs = [norm_real(w, names, c) for c in comp]

    def hooked(t):
        return hasattr(t, "__type_order__")

    try:
        for C in Cs:
            # only when the companion carries a hook of its own: against a plain class (or a parametrised generic)
            # the order must not depend on the spelling (C15_union_order_typeorder)
            if hooked(C) and (typeorder(A, C), typeorder(C, A)) != (typeorder(B, C), typeorder(C, B)):
                return True
        # an order that is not mirror-symmetric between two hook types inside either method set makes the outcome
        # depend on the iteration order of the library's sets: two builds of the *same* method set may already differ
        for X in (A, B):
            ts = [X] + Cs
            for i in range(len(ts)):
                for j in range(i + 1, len(ts)):
                    if hooked(ts[i]) and hooked(ts[j]) and typeorder(ts[i], ts[j]) is not typeorder(ts[j], ts[i]).opposite():
                        return True
    except Exception:  # noqa
        return True
    return False


def replay_respell(wit):
    """re-run a recorded respelling scenario; True when the two spellings still dispatch differently"""
    from world import World

    w = World(wit["world"])
    w.classes = list(w.classes) + [float]
    w.float_id = len(w.classes) - 1
    names = dict(wit["names"])
    f1 = build_fn(w, names, [(wit["ann"], False)], wit["companions"])
    f2 = build_fn(w, names, [(wit["respelled"], wit["alt"])], wit["companions"])
    for v in corpus(w, random.Random(0)):
        if outcome(f1, v) != outcome(f2, v):
            return True
    return False


def worker(payload):
    seed, n, _ = payload
    out = {"ops": 0, "corr": [], "hist": {}, "samples": [], "oracles": {}}
    stats, hist, diffs = run_corr(seed, n)
    out["ops"] = stats["annotations"] + stats["subtler"]
    out["corr"] = diffs[:3]
    for k, v in stats.items():
        out["hist"]["layer B: " + k] = v
    for k, v in hist.items():
        out["hist"]["annotation form: " + k] = v
    run_oracles(seed + 1, 2 * n, out)
    return out


if __name__ == "__main__":
    seed = int(sys.argv[1]) if len(sys.argv) > 1 else 0
    n = int(sys.argv[2]) if len(sys.argv) > 2 else 100
    r = worker((seed, n, {}))
    print(r["ops"], "corr", len(r["corr"]))
    print({k: v for k, v in r["hist"].items() if not k.startswith("respelling")})
    print({k: v for k, v in r["hist"].items() if k.startswith("respelling")})
    for c in r["corr"][:4]:
        print(json.dumps(c, default=str)[:700])
    for k, o in r["oracles"].items():
        print(k, o["n"], o["nontrivial"], "viol", len(o["viol"]))
        for v in o["viol"][:4]:
            print("  ", json.dumps({a: b for a, b in v.items() if a != "world"}, default=str)[:600])
