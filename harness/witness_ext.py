"""Replay of table-level and function-level witnesses of known findings on the real code."""
import json


def replay(w):
    kind = w["kind"]
    if kind == "pysrc":
        # a self-contained script over the real library that leaves FAILED = True/False (raising counts as failing)
        from common import use_repo

        use_repo()
        ns = {"__name__": "verif_witness"}
        try:
            exec(compile(w["src"], "<witness>", "exec"), ns)
        except BaseException:  # noqa
            return True
        return bool(ns.get("FAILED", True))
    if kind == "build-injected":
        import check_build

        return check_build.replay_injected(w)
    if kind == "build":
        import check_build

        return check_build.replay_witness(w)
    if kind == "conc":
        import check_conc

        return check_conc.replay_conc(w)
    if kind == "respell":
        import corr_b

        return corr_b.replay_respell(w)
    if kind == "rewrite":
        import random

        import check_rewrite as cr

        ov, ref, log, src, fname, rname = cr.build(random.Random(0), w["lines"], set(), w["closure"], w["kwdefault"])
        args = eval(w["args"])
        return cr.outcome(ov, args, w.get("kwargs", {}), log, fname) != cr.outcome(ref, args, w.get("kwargs", {}), log, rname)
    from world import World

    wd = World(w["world"])
    if kind == "table-fresh":
        import check_table

        sc = w["scenario"]
        j = w["op_index"]
        im = check_table.run_impl(wd, sc)
        return im[j]["r"] != check_table.fresh_impl(wd, sc, j)
    if kind == "table":
        import check_table

        sc = w["scenario"]
        j = w["op_index"]
        im = check_table.run_impl(wd, sc)
        got = check_table.kind(im[j]["r"])
        if "spec" in w:
            return got != w["spec"]
        return got == w.get("impl", got) and got[0] == "keyerror"
    if kind == "fn":
        import check_fn
        from fnlevel import FnWorld

        sc = w["scenario"]
        j = w["op_index"]
        im = FnWorld(wd, sc).run()
        got = check_fn.ot(im[j])
        if "fresh" in w:
            fr = check_fn.fresh_call(wd, sc, j)
            return check_fn.ot(fr) != got
        return got == check_fn.ot(w["impl"])
    if kind in ("dep-rank", "fn-dep", "fn-dep-order"):
        # replayed through the stream that found it: the class must still be producible; a cheap proxy is to
        # re-run the recorded scenario's generator-independent core
        import check_dep_replay

        return check_dep_replay.replay(w)
    if kind == "graph":
        from corr_g import GraphWorld

        from common import run_driver
        from corr_g import to_model

        sc = w["scenario"]
        im = GraphWorld(wd, sc).run()
        b = im[w["op_index"]]
        # what the node must behave like now: the overlay of the current definitions (computed by the Lean spec
        # on the model state; an operation that is refused today simply leaves the definitions unchanged)
        r = run_driver([to_model(wd, sc)])[0]
        e = r["ops"][w["op_index"]]["exp"]
        if e["o"] and e["o"][0] == "ambiguous":
            e["o"] = ["ambiguous"]
        return {"o": b["o"], "t": b.get("t")} != {"o": e["o"], "t": e["t"]}
    raise ValueError(kind)
