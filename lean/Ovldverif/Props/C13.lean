import Ovldverif.Spec.Types
import Ovldverif.Lemmas.Basic
/-!
# C13 — type-level matching agrees with the documented meaning of each type

Theorems about `Ovld.subclasscheck` (model of `mro.subclasscheck` with the `__is_supertype__` hooks of
`types.py` inlined).
-/
set_option autoImplicit false
namespace Ovld

variable (H : Hier)

/-- the subtype test is reflexive -/
theorem C13_refl (t : Ty) : subclasscheck H t t = true := by
  unfold subclasscheck; rw [subc]; simp [Ty.beq_refl]

/-- it equals `issubclass` on plain classes -/
theorem C13_cls (wf : H.WF) (a b : Nat) : subclasscheck H (.cls a) (.cls b) = H.sub a b := by
  unfold subclasscheck; rw [subc]
  by_cases h : a = b
  · subst h; simp [Ty.beq, wf.refl]
  · simp [Ty.beq, h, subcNe, issubCls]

/-- hence transitive there -/
theorem C13_cls_trans (wf : H.WF) (a b c : Nat)
    (h1 : subclasscheck H (.cls a) (.cls b) = true) (h2 : subclasscheck H (.cls b) (.cls c) = true) :
    subclasscheck H (.cls a) (.cls c) = true := by
  rw [C13_cls H wf] at *; exact wf.trans a b c h1 h2

/-- key lemma: with enough fuel, the subtype test of a class against a non-value-dependent,
    non-generic type is the documented membership -/
theorem subc_mem (wf : H.WF) : ∀ (f : Nat) (c : Nat) (T : Ty), T.plain = true → T.size < f →
    subc H f (.cls c) T = mem H c T := by
  intro f
  induction f with
  | zero => intro c T _ h; omega
  | succ f ih =>
    intro c T hp hs
    have anyL : ∀ ts : List Ty, Ty.plainL ts = true → Ty.sizeL ts < f →
        ts.any (fun t => subc H f (.cls c) t) = memAny H c ts := by
      intro ts
      induction ts with
      | nil => intro _ _; simp [memAny]
      | cons t ts ih2 =>
        intro hp hs
        simp only [Ty.plainL, Bool.and_eq_true] at hp
        simp only [Ty.sizeL] at hs
        have := Ty.size_pos t
        simp only [List.any_cons, memAny]
        rw [ih c t hp.1 (by omega), ih2 hp.2 (by omega)]
    have allL : ∀ ts : List Ty, Ty.plainL ts = true → Ty.sizeL ts < f →
        ts.all (fun t => subc H f (.cls c) t) = memAll H c ts := by
      intro ts
      induction ts with
      | nil => intro _ _; simp [memAll]
      | cons t ts ih2 =>
        intro hp hs
        simp only [Ty.plainL, Bool.and_eq_true] at hp
        simp only [Ty.sizeL] at hs
        have := Ty.size_pos t
        simp only [List.all_cons, memAll]
        rw [ih c t hp.1 (by omega), ih2 hp.2 (by omega)]
    rw [subc]
    cases T with
    | cls d =>
      by_cases h : c = d
      · subst h; simp [Ty.beq, mem, wf.refl]
      · simp [Ty.beq, h, subcNe, issubCls, mem]
    | gen o a => simp [Ty.plain] at hp
    | union ts =>
      simp only [Ty.beq, subcNe, mem, Bool.false_eq_true, if_false]
      exact anyL ts (by simpa [Ty.plain] using hp) (by simp [Ty.size] at hs; omega)
    | inter ts =>
      simp only [Ty.beq, subcNe, mem, Bool.false_eq_true, if_false]
      exact allL ts (by simpa [Ty.plain] using hp) (by simp [Ty.size] at hs; omega)
    | exactly t d => simp [Ty.beq, subcNe, mem]
    | strict t d => simp [Ty.beq, subcNe, strictH, mem]
    | hasm t m => simp [Ty.beq, subcNe, hasmH, mem]
    | pred t k => simp [Ty.beq, subcNe, predH, mem]
    | lit _ _ => simp [Ty.plain] at hp
    | prod _ _ => simp [Ty.plain] at hp
    | fdep _ _ _ => simp [Ty.plain] at hp

/-- **type-level matching = documented meaning**: for every non-value-dependent type `T` built from
    classes, unions, intersections, `Exactly`, `StrictSubclass`, `HasMethod` and class predicates, and
    every class `c`, `subclasscheck(c, T)` holds exactly when `c` satisfies what `T` is documented to mean -/
theorem C13_mem (wf : H.WF) (c : Nat) (T : Ty) (hp : T.plain = true) :
    subclasscheck H (.cls c) T = mem H c T := by
  unfold subclasscheck
  exact subc_mem H wf _ c T hp (by simp [Ty.size]; omega)

/-- membership is inherited along subclassing for down-closed types (no `Exactly`, `HasMethod`,
    predicate inside): the fragment on which the subtype test is transitive through a class -/
theorem mem_down (wf : H.WF) (anti : H.Antisym) (a b : Nat) (hab : H.sub a b = true) :
    ∀ (n : Nat) (T : Ty), T.size < n → T.downClosed = true → mem H b T = true → mem H a T = true := by
  intro n
  induction n with
  | zero => intro T h; omega
  | succ n ih =>
    intro T hs hd hm
    have anyL : ∀ ts : List Ty, Ty.sizeL ts < n → Ty.downClosedL ts = true →
        memAny H b ts = true → memAny H a ts = true := by
      intro ts
      induction ts with
      | nil => intro _ _ h; simp [memAny] at h
      | cons t ts ih2 =>
        intro hs hd hm
        simp only [Ty.downClosedL, Bool.and_eq_true] at hd
        simp only [Ty.sizeL] at hs
        have := Ty.size_pos t
        simp only [memAny, Bool.or_eq_true] at hm ⊢
        rcases hm with h | h
        · exact Or.inl (ih t (by omega) hd.1 h)
        · exact Or.inr (ih2 (by omega) hd.2 h)
    have allL : ∀ ts : List Ty, Ty.sizeL ts < n → Ty.downClosedL ts = true →
        memAll H b ts = true → memAll H a ts = true := by
      intro ts
      induction ts with
      | nil => intro _ _ _; simp [memAll]
      | cons t ts ih2 =>
        intro hs hd hm
        simp only [Ty.downClosedL, Bool.and_eq_true] at hd
        simp only [Ty.sizeL] at hs
        have := Ty.size_pos t
        simp only [memAll, Bool.and_eq_true] at hm ⊢
        exact ⟨ih t (by omega) hd.1 hm.1, ih2 (by omega) hd.2 hm.2⟩
    cases T with
    | cls d => simp only [mem] at hm ⊢; exact wf.trans a b d hab hm
    | union ts =>
      simp only [mem] at hm ⊢
      exact anyL ts (by simp [Ty.size] at hs; omega) (by simpa [Ty.downClosed] using hd) hm
    | inter ts =>
      simp only [mem] at hm ⊢
      exact allL ts (by simp [Ty.size] at hs; omega) (by simpa [Ty.downClosed] using hd) hm
    | strict t d =>
      simp only [mem, Bool.and_eq_true, bne_iff_ne, ne_eq] at hm ⊢
      refine ⟨wf.trans a b d hab hm.1, ?_⟩
      intro e; subst e
      exact hm.2 (anti b a hm.1 hab)
    | gen _ _ => simp [Ty.downClosed] at hd
    | exactly _ _ => simp [Ty.downClosed] at hd
    | hasm _ _ => simp [Ty.downClosed] at hd
    | pred _ _ => simp [Ty.downClosed] at hd
    | lit _ _ => simp [Ty.downClosed] at hd
    | prod _ _ => simp [Ty.downClosed] at hd
    | fdep _ _ _ => simp [Ty.downClosed] at hd

theorem Ty.plain_of_downClosed : ∀ (n : Nat) (T : Ty), T.size < n → T.downClosed = true → T.plain = true := by
  intro n
  induction n with
  | zero => intro T h; omega
  | succ n ih =>
    intro T hs hd
    have L : ∀ ts : List Ty, Ty.sizeL ts < n → Ty.downClosedL ts = true → Ty.plainL ts = true := by
      intro ts
      induction ts with
      | nil => intro _ _; rfl
      | cons t ts ih2 =>
        intro hs hd
        simp only [Ty.downClosedL, Bool.and_eq_true] at hd
        simp only [Ty.sizeL] at hs
        have := Ty.size_pos t
        simp only [Ty.plainL, Bool.and_eq_true]
        exact ⟨ih t (by omega) hd.1, ih2 (by omega) hd.2⟩
    cases T <;> simp [Ty.downClosed] at hd <;> simp [Ty.plain]
    · exact L _ (by simp [Ty.size] at hs; omega) hd
    · exact L _ (by simp [Ty.size] at hs; omega) hd

/-- transitivity through a class, on the down-closed fragment (it cannot hold through `Exactly[...]`:
    see `C13_trans_exactly_counterexample`) -/
theorem C13_trans_partial (wf : H.WF) (anti : H.Antisym) (a b : Nat) (T : Ty) (hd : T.downClosed = true)
    (h1 : subclasscheck H (.cls a) (.cls b) = true) (h2 : subclasscheck H (.cls b) T = true) :
    subclasscheck H (.cls a) T = true := by
  have hp := Ty.plain_of_downClosed (T.size + 1) T (by omega) hd
  rw [C13_cls H wf] at h1
  rw [C13_mem H wf _ _ hp] at h2 ⊢
  exact mem_down H wf anti a b h1 (T.size + 1) T (by omega) hd h2

/-- finding D17: `B ≤ A ≤ Exactly[A]` but `B ≰ Exactly[A]` — inherent in what `Exactly` means -/
def exH : Hier := { sub := fun a b => a == b || b == 0 || (a == 2 && b == 1), hasAttr := fun _ _ => false, pred := fun _ _ => false }
theorem C13_trans_exactly_counterexample :
    subclasscheck exH (.cls 2) (.cls 1) = true ∧ subclasscheck exH (.cls 1) (.exactly 7 1) = true ∧
    subclasscheck exH (.cls 2) (.exactly 7 1) = false := by decide +kernel

end Ovld
