import itertools, typing, collections.abc as cabc
from ovld.mro import subclasscheck, typeorder
from ovld import Ovld
class A: pass
class B(A): pass
G = {"A": A, "B": B, "int": int, "object": object, "list": list, "dict": dict, "Seq": cabc.Sequence}
for n in ("A", "B", "object"):
    G[f"list[{n}]"] = list[G[n]]; G[f"Seq[{n}]"] = cabc.Sequence[G[n]]
G["list[list[A]]"] = list[list[A]]; G["list[list[B]]"] = list[list[B]]; G["dict[A,B]"] = dict[A, B]; G["dict[B,B]"] = dict[B, B]; G["dict[object,object]"] = dict[object, object]
def subtype(t1, t2):
    o1, o2 = typing.get_origin(t1), typing.get_origin(t2)
    if t1 == t2: return True
    if o1 is None and o2 is None: return issubclass(t1, t2)
    if o2 is None: return issubclass(o1, t2)            # generic <= plain class: origin subclass
    if o1 is None: return False                          # plain class <= parametrised generic: never
    if not issubclass(o1, o2): return False
    a1, a2 = typing.get_args(t1), typing.get_args(t2)
    return len(a1) == len(a2) and all(subtype(x, y) for x, y in zip(a1, a2))
bad = 0
for (n1, t1), (n2, t2) in itertools.product(G.items(), repeat=2):
    got = subclasscheck(type[t1], type[t2]); exp = subtype(t1, t2)
    if got != exp:
        bad += 1; print("MISMATCH", n1, "<=", n2, "impl", got, "spec", exp)
print("pairs", len(G) ** 2, "bad", bad)
# dispatch-level: method annotated type[T2] applicable to passed t1 iff subtype
bad = 0
for (n2, t2) in G.items():
    f = Ovld(name="f")
    def m(t): return "hit"
    m.__annotations__ = {"t": type[t2]}
    f.register(m)
    for (n1, t1) in G.items():
        try: r = f(t1) == "hit"
        except TypeError: r = False
        if r != subtype(t1, t2): bad += 1; print("DISPATCH MISMATCH passed", n1, "annot type[", n2, "] impl", r)
print("dispatch bad", bad)
