import Ovldverif.Spec.Chain
import Ovldverif.Spec.Runs
import Ovldverif.Lemmas.CacheInv
import Ovldverif.Lemmas.PlanOK
import Ovldverif.Lemmas.C01Core
/-!
# C01 — a method only ever runs on arguments its declared signature accepts

Three layers: (1) whatever the table returns for a key — directly or for a `call_next` continuation key, for ANY
declared types (classes, generics, unions, intersections, Exactly, ..., value-dependent types at their bound) —
only mentions handlers that are applicable to that key: arity, required keywords, and every key type a subtype
of the declared type; (2) CPython's binding of the forwarded arguments; (3) a value-dependent dispatcher only
selects a handler whose generated conditions all hold.
-/
set_option autoImplicit false
namespace Ovld

/-- (1) every handler reachable from a looked-up entry is applicable to the key -/
theorem C01_lookup_applicable (cfg : Cfg) (ms : List Meth) (hd : DistinctHandlers ms) (c : Option Code) (k : Key)
    (hne : k ≠ []) (e : Entry) (h : pureLookup (plan cfg ms) (c, k) = .ok e) :
    ∀ id ∈ e.handlers, ∃ m ∈ ms, m.id = id ∧ applicableTo cfg.H k m = true :=
  lookup_applicable cfg ms hd.ids c k hne e h

/-- (1) for the call without arguments (resolved like every other key since the `fix:` for finding D9) -/
theorem C01_lookup_applicable_zero_args (cfg : Cfg) (ms : List Meth) (hd : DistinctHandlers ms) (c : Option Code)
    (e : Entry) (h : pureLookup (plan cfg ms) (c, []) = .ok e) :
    ∀ id ∈ e.handlers, ∃ m ∈ ms, m.id = id ∧ applicableTo cfg.H [] m = true :=
  lookup_applicable_all cfg ms hd.ids c [] e h

/-- (2) the forwarded positionals fit the selected method's range and every required keyword-only parameter
    was forwarded -/
theorem C01_bind_arity (d : FnDef) (x : Dispatch) (b : List (Nat × Option Arg)) (h : methodBind d x = some b) :
    x.passPos.length ≤ d.positional.length ∧
    (∀ p ∈ d.params, p.required = true → ∃ v, (p.name, some v) ∈ b) := by
  unfold methodBind at h
  dsimp only at h
  split at h
  · cases h
  · rename_i h1
    split at h
    · cases h
    · split at h
      · cases h
      · rename_i hmiss
        cases Option.some.inj h
        refine ⟨Nat.le_of_not_gt h1, ?_⟩
        intro p hp hreq
        have hall := List.any_eq_false.mp (Bool.eq_false_iff.mpr hmiss)
        have hp' := hall p hp
        rw [hreq, Bool.true_and] at hp'
        split at hp'
        · rename_i n v hfind
          have hmem := List.mem_of_find?_eq_some hfind
          have hn : n = p.name := by simpa using List.find?_some hfind
          rw [hn] at hmem
          exact ⟨v, hmem⟩
        · exact absurd rfl hp'

/-- the first-match body returns a handler only at an element whose conjunction is true -/
theorem dispatch_go_sound (W : DWorld) (k : List Slot) (args : List (Slot × DVal)) (h : Nat) :
    ∀ (hs : List DHandler), dispatch.go W k args hs = .handler h →
      ∃ hd ∈ hs, hd.1 = h ∧ conj W args k hd = .yes := by
  intro hs
  induction hs with
  | nil => intro hg; rw [dispatch.go] at hg; cases hg
  | cons a r ih =>
    intro hg
    rw [dispatch.go] at hg
    cases hc : conj W args k a with
    | yes =>
      rw [hc] at hg
      exact ⟨a, List.mem_cons_self, DRes.handler.inj hg, hc⟩
    | no =>
      rw [hc] at hg
      obtain ⟨hd, hm, h1, h2⟩ := ih hg
      exact ⟨hd, List.mem_cons_of_mem _ hm, h1, h2⟩
    | raises => rw [hc] at hg; cases hg

/-- (3) a dependent dispatcher that evaluates conditions (first-match or counting body) only selects a handler
    whose conjunction of generated conditions is true on the arguments -/
theorem C01_dependent_selected (W : DWorld) (k : List Slot) (hs : List DHandler) (args : List (Slot × DVal))
    (h : Nat) (hsel : dispatch W k hs args = .handler h)
    (hnk : ∀ s t, strategy W k hs ≠ .keyed s t) :
    ∃ hd ∈ hs, hd.1 = h ∧ conj W args k hd = .yes := by
  unfold dispatch at hsel
  cases hst : strategy W k hs with
  | keyed s t => exact absurd hst (hnk s t)
  | firstMatch =>
    rw [hst] at hsel
    exact dispatch_go_sound W k args h hs hsel
  | counting =>
    rw [hst] at hsel
    dsimp only at hsel
    split at hsel
    · cases hsel
    · split at hsel
      · cases hsel
      · rename_i p hp
        have hpm : p ∈ (hs.map (fun h => (h.1, conj W args k h))).filter (fun p => p.2 == .yes) := by
          rw [hp]; exact List.mem_cons_self
        obtain ⟨hmem, hyes⟩ := List.mem_filter.mp hpm
        obtain ⟨hd, hdm, rfl⟩ := List.mem_map.mp hmem
        exact ⟨hd, hdm, DRes.handler.inj hsel, eq_of_beq hyes⟩
      · cases hsel

/-- (3') with the lookup-table body the selected handler is the one recorded for the argument's value -/
theorem C01_dependent_keyed (W : DWorld) (k : List Slot) (hs : List DHandler) (args : List (Slot × DVal))
    (h : Nat) (s : Slot) (table : List (Nat × Nat)) (hst : strategy W k hs = .keyed s table)
    (hsel : dispatch W k hs args = .handler h) :
    ∃ v, argAt args s = some v ∧ (v.eq, h) ∈ table := by
  unfold dispatch at hsel
  rw [hst] at hsel
  dsimp only at hsel
  split at hsel
  · cases hsel
  · rename_i v hv
    split at hsel
    · cases hsel
    · split at hsel
      · rename_i e he
        have hmem := List.mem_of_find?_eq_some he
        have hk : e.1 = v.eq := by simpa using List.find?_some he
        have h2 : e.2 = h := DRes.handler.inj hsel
        refine ⟨v, hv, ?_⟩
        rw [← hk, ← h2]
        exact hmem
      · cases hsel

end Ovld
