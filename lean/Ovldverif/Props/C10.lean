import Ovldverif.Spec.DepSpec
import Ovldverif.Lemmas.C10Core
/-!
# C10 — value-dependent methods run exactly when their condition holds, whatever code is generated

`dispatch` is the model of the generated `__DEPENDENT_DISPATCH__` (three possible bodies: lookup table on a
Literal key, first match, counting); `rankSpec` is the documented meaning.
-/
set_option autoImplicit false
namespace Ovld

/-- **strategy independence / correctness**: whichever of the three bodies the generator emits, the dispatcher
    of a rank runs exactly the unique handler all of whose positions accept the values, falls through when
    there is none, and raises the ambiguity when there are several -/
theorem C10_strategy_correct (W : DWorld) (k : List Slot) (hs : List DHandler) (args : List (Slot × DVal))
    (ok : RankOK W k hs args) :
    dispatch W k hs args = rankSpec W k hs args :=
  dispatch_eq_rankSpec W k hs args ok

/-- the user's condition is consulted by a guarded member only for values inside the bound.

    `htop` (every class is a subclass of `object`) excludes the bound `object`, for which no guard is emitted:
    with `H.sub = fun _ _ => false`, `c = 0` and `chk = fun _ _ _ => .yes` the member code answers `yes`. -/
theorem C10_guard (W : DWorld) (fn : Nat) (ps : List (Option Nat)) (c : Nat) (v : DVal)
    (htop : W.H.sub v.cls 0 = true)
    (hout : W.H.sub v.cls c = false) :
    memberCheck W ((Ty.fdep fn ps (.cls c)).size + 1) (.fdep fn ps (.cls c)) v = .no := by
  have h0 : c ≠ 0 := by
    intro e; subst e; rw [htop] at hout; cases hout
  rw [memberCheck_fdep_cls, if_neg h0, hout]
  rfl

end Ovld
