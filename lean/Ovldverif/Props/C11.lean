import Ovldverif.Spec.DepSpec
import Ovldverif.Lemmas.C10Core
/-!
# C11 — generated checking code agrees with `isinstance` on the same value-dependent type

`genCheck` / `memberCheck` are the model of the code strings produced by `generate_checking_code`
(`Literal` table membership, `FuncDependentType` condition call, bound-guarded parenthesised members of a
`Union` / `Intersection`); `isinstanceOf` is the documented meaning (`isinstance(value, T)`).
-/
set_option autoImplicit false
namespace Ovld

/-- a Literal's generated check, inside its bound, is membership of the value among the literal's values -/
theorem C11_literal (W : DWorld) (keys : List Nat) (b : Ty) (v : DVal) (hb : isinstanceOf W b v = .yes) :
    genCheck W (.lit keys b) v = isinstanceOf W (.lit keys b) v ∧
    (isinstanceOf W (.lit keys b) v = .yes ↔ v.eq ∈ keys) := by
  have h1 : isinstanceOf W (.lit keys b) v = Tri.ofBool (keys.contains v.eq) := by
    rw [isinstanceOf_lit, hb]
  rw [genCheck_lit, h1, Tri.ofBool_eq_yes, List.contains_iff_mem]
  exact ⟨rfl, Iff.rfl⟩

/-- a user condition / built-in `FuncDependentType` check, inside its bound, is the condition itself -/
theorem C11_fdep (W : DWorld) (fn : Nat) (ps : List (Option Nat)) (b : Ty) (v : DVal)
    (hb : isinstanceOf W b v = .yes) :
    genCheck W (.fdep fn ps b) v = isinstanceOf W (.fdep fn ps b) v := by
  rw [genCheck_fdep, isinstanceOf_fdep, hb]

/-- inside a Union / Intersection every value-dependent member with a class bound is checked *within its
    bound* (the guard of the `fix:` for finding D7): the member's parenthesised code is exactly `isinstance`.

    `htop` (every class is a subclass of `object`, `Hier.WF.top`) is needed because the generated code omits the
    guard when the bound is `object` (`.cls 0`): with `H.sub = fun _ _ => false`, `t = .lit [7] (.cls 0)` and a
    value of equality class 7 the member code answers `yes` while `isinstanceOf` answers `no`. -/
theorem C11_member_guarded (W : DWorld) (t : Ty) (c : Nat) (v : DVal)
    (htop : W.H.sub v.cls 0 = true)
    (ht : (∃ keys, t = .lit keys (.cls c)) ∨ (∃ fn ps, t = .fdep fn ps (.cls c))) :
    memberCheck W (t.size + 1) t v = isinstanceOf W t v := by
  rcases ht with ⟨keys, rfl⟩ | ⟨fn, ps, rfl⟩
  · rw [memberCheck_lit_cls, isinstanceOf_lit, isinstanceOf_cls]
    by_cases h0 : c = 0
    · subst h0; rw [if_pos rfl, htop]; rfl
    · rw [if_neg h0]
      cases W.H.sub v.cls c <;> rfl
  · rw [memberCheck_fdep_cls, isinstanceOf_fdep, isinstanceOf_cls]
    by_cases h0 : c = 0
    · subst h0; rw [if_pos rfl, htop]; rfl
    · rw [if_neg h0]
      cases W.H.sub v.cls c <;> rfl

end Ovld
