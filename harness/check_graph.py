"""Graph stream: correspondence G + the C16 / C08 oracle (every node behaves like the overlay of its ancestors'
and its own current definitions; `recurse` re-enters the node that was called)."""
import json
import random

from common import run_driver, use_repo

use_repo()
from corr_g import GraphWorld, gen_graph_scenario, to_model  # noqa: E402


def worker(payload):
    seed, n, opts = payload
    rng = random.Random(seed)
    scs, impls, keep = [], [], []
    for _ in range(n):
        w, sc = gen_graph_scenario(rng, **opts)
        impls.append(GraphWorld(w, sc).run())
        scs.append(to_model(w, sc))
        keep.append((w, sc))
    res = run_driver(scs)
    # specification run, independent of the model's locking / propagation logic: keep exactly the operations the
    # real code accepted, let no lock refuse them, and ask for the overlay semantics of every call
    spec_scs, spec_idx = [], []
    for (w, sc), im, m in zip(keep, impls, scs):
        ops2, idx = [], []
        for j, (op, b) in enumerate(zip(sc["ops"], im)):
            if op[0] == "call" or b["o"] == ["ok"]:
                idx.append(j)
                ops2.append(op)
        spec_scs.append({**m, "ops": ops2, "ignoreLocks": True})
        spec_idx.append(idx)
    spec_res = run_driver(spec_scs)
    out = {"ops": 0, "corr": [], "hist": {}, "samples": [], "oracles": {}}

    def orc(name):
        return out["oracles"].setdefault(name, {"n": 0, "nontrivial": 0, "viol": [], "known": {}})

    def known(o, key, witness):
        e = o["known"].setdefault(key, {"count": 0, "witness": witness})
        e["count"] += 1

    for i, (r, im) in enumerate(zip(res, impls)):
        w, sc = keep[i]
        desc = {"world": w.desc, "scenario": sc}
        if "error" in r or "error" in spec_res[i]:
            out["corr"].append({"layer": "G", "kind": "driver-error", "detail": r.get("error") or spec_res[i].get("error"), "scenario": desc})
            continue
        exp_of = {}
        for pos, j in enumerate(spec_idx[i]):
            e = spec_res[i]["ops"][pos].get("exp")
            if e is not None:
                exp_of[j] = e
        corr_ok = True
        used = set()
        addmix_after_use = False
        warm20 = set()
        for j, (a, b) in enumerate(zip(r["ops"], im)):
            out["ops"] += 1
            op = sc["ops"][j]
            out["hist"]["op:" + op[0]] = out["hist"].get("op:" + op[0], 0) + 1
            ma = {k: v for k, v in a.items() if k in ("o", "t", "locked")}
            if ma.get("o", [None])[0] == "ambiguous":
                ma["o"] = ["ambiguous"]
            mb = {k: v for k, v in b.items() if k in ("o", "t", "locked")}
            if corr_ok and ma != mb:
                out["corr"].append({"layer": "G", "op_index": j, "op": op, "model": ma, "impl": mb, "scenario": desc})
                corr_ok = False  # keep evaluating the oracle, which does not depend on the model's state
            if op[0] == "addmix" and used:
                addmix_after_use = True
            if op[0] in ("reg", "unreg", "addmix"):
                warm20 = set()
            if op[0] != "call":
                continue
            # C20 across derived functions: a call that already succeeded on this function resolves nothing when it
            # is repeated while no method set has changed (calls of OTHER functions, e.g. the first call of a parent,
            # are not changes)
            k20 = json.dumps([op[1], op[2]])
            if "nres" in b:
                o20 = orc("C20")
                if k20 in warm20:
                    o20["n"] += 1
                    o20["nontrivial"] += 1
                    if b["nres"] > 0:
                        o20["viol"].append({"law": "a repeated successful call resolved again although no method set had changed", "nres": b["nres"], "kind": "graph", "world": w.desc, "scenario": {**sc, "ops": sc["ops"][: j + 1]}, "op_index": j})
                if b["o"] and b["o"][0] == "ran":
                    warm20.add(k20)
            e = exp_of.get(j, a.get("exp"))
            if e["o"] and e["o"][0] == "ambiguous":
                e["o"] = ["ambiguous"]
            o16 = orc("C16")
            o16["n"] += 1
            if op[1] in used and len(used) > 1:
                o16["nontrivial"] += 1
            bodies = {d["id"]: d["body"][0] for d in sc["defs"]}
            if any(bodies.get(t[0]) == "callNext" for t in mb["t"]):
                o7 = orc("C07")
                o7["n"] += 1
                if len(mb["t"]) > 1:
                    o7["nontrivial"] += 1
            if any(bodies.get(t[0]) == "recurse" for t in mb["t"]):
                o8 = orc("C08")
                o8["n"] += 1
                if len(mb["t"]) > 1:
                    o8["nontrivial"] += 1
            # C05 on derived functions: a function that was already in use answers like a brand-new function over
            # the method set that results from every change made since (to itself or to a linked ancestor)
            o5 = orc("C05")
            if op[1] in used:
                o5["n"] += 1
                o5["nontrivial"] += 1
            if {"o": e["o"], "t": e["t"]} != {"o": mb["o"], "t": mb["t"]}:
                wit = {"kind": "graph", "world": w.desc, "scenario": {**sc, "ops": sc["ops"][: j + 1]}, "op_index": j, "impl": {"o": mb["o"], "t": mb["t"]}, "expected": {"o": e["o"], "t": e["t"]}}
                if op[1] in used:
                    o5["viol"].append({"law": "a function already in use does not answer like a brand-new function over the method set resulting from the changes made since", **wit})
                o16["viol"].append({"law": "a function in use does not behave like the overlay of its ancestors' and its own current definitions", **wit})
                if any(bodies.get(t[0]) == "callNext" for t in e["t"] + mb["t"]):
                    orc("C07")["viol"].append({"law": "a call_next chain in a derived function differs from the chain of a fresh function over its current definitions", **wit})
                if any(bodies.get(t[0]) == "recurse" for t in e["t"] + mb["t"]):
                    orc("C08")["viol"].append({"law": "recurse did not re-enter the function that was called (behaviour differs from a fresh function over the overlay)", **wit})
            used.add(op[1])
        if len(out["samples"]) < 1 and im:
            out["samples"].append({"ops": sc["ops"][:6], "last": {k: v for k, v in im[-1].items() if k in ("o", "t")}})
    return out
