"""C19: concurrent calls behave like sequential calls.

Real threads run the real library under the cooperative scheduler of conc.py (every executed library line is a
scheduling point).  Scenarios: racing the very first calls (lazy build), racing cache misses for equal and for
different argument types, racing call_next chains; two threads with one or two forced pre-emptions at every / at
sampled positions, three threads sampled.  Oracle: every thread's call returns what the same call returns alone on
a brand-new function, no spurious ambiguity / missing-method / internal error, and afterwards every probe through
both routes equals the sequential reference."""

import random
import sys

from check_build import Scenario, call, canon, held_dispatch, invoke
from common import use_repo
import conc
from conc import run_schedule

use_repo()

# how many builds (`Ovld._compile` run to its end) since the counter was last reset: counted from outside, the
# library's lines are the only scheduling points
BUILDS = {"n": 0}


def _count_builds():
    from ovld import core

    if getattr(core.Ovld._compile, "_verif_counting", False):
        return
    orig = core.Ovld._compile

    def _compile(self):
        r = orig(self)
        BUILDS["n"] += 1
        return r

    _compile._verif_counting = True
    _compile.__name__ = "_compile"
    core.Ovld._compile = _compile


_count_builds()


def reference(sc, tags, probes):
    ov = sc.build(tags)
    return [call(ov, p) for p in probes]


def make(sc, tags, warm, probes):
    ov = sc.build(tags)
    for i in warm:
        call(ov, probes[i])
    return ov


LASTRUN = {}


def one_run(sc, tags, mode, targs, routes, segments, probes, ref):
    """returns None when everything agrees with the sequential reference, else a description"""
    warm = []
    BUILDS["n"] = 0
    if mode != "first":
        # built and warmed on an argument none of the threads uses
        warm = [i for i in range(len(probes)) if i not in targs][:1]
    ov = make(sc, tags, warm, probes)
    if mode != "first" and not warm:
        call(ov, probes[targs[0]])
        BUILDS["n"] = 0
        ov = make(sc, tags, [], probes)
        ov.compile()
    fns = []
    for a, r in zip(targs, routes):
        target = ov if r == "obj" or not hasattr(ov, "dispatch") else held_dispatch(ov)

        def f(_t=target, _p=probes[a]):
            return canon(invoke(_t, _p))

        fns.append(f)
    ok, results, lengths, trace = run_schedule(fns, segments)
    LASTRUN["builds"] = BUILDS["n"]
    if not ok:
        return {"law": "threads deadlocked", "trace": trace}, lengths
    for i, (res, a) in enumerate(zip(results, targs)):
        exp = ref[a]
        got = ("ok", res[1]) if res and res[0] == "ok" else ("error",) + tuple(res[1:]) if res else ("none",)
        if got[0] != exp[0] or (got[0] == "ok" and got[1] != exp[1]) or (got[0] == "error" and got[1:2] != exp[1:2]):
            return {"law": "a concurrent call did not return what it returns alone", "thread": i, "got": got, "alone": exp, "trace": trace}, lengths
    for r in ("obj", "fn"):
        after = [call(ov, p, r) for p in probes]
        for j, (a, e) in enumerate(zip(after, ref)):
            if a[0] != e[0] or (a[0] == "ok" and a != e):
                return {"law": "after concurrent calls a later call differs from the sequential reference", "probe": j, "route": r, "got": a, "alone": e, "trace": trace}, lengths
    return None, lengths


def explore(seed, n, opts):
    rng = random.Random(seed)
    out = {"ops": 0, "corr": [], "hist": {}, "samples": [], "oracles": {}}
    o = out["oracles"].setdefault("C19", {"n": 0, "nontrivial": 0, "viol": [], "known": {}})
    # C20 (Props/C20Build.lean): the method set does not change during a schedule, so the function is built once — a
    # second build throws away every combination that has been handled and resolves it again
    o20 = out["oracles"].setdefault("C20", {"n": 0, "nontrivial": 0, "viol": [], "known": {}})

    def built_once(wit):
        o20["n"] += 1
        if wit["mode"] == "first":
            o20["nontrivial"] += 1
        if LASTRUN.get("builds", 0) > 1 and len(o20["viol"]) < 5:
            o20["viol"].append({"law": "a function whose methods did not change was built again: every combination handled so far is resolved again", "builds": LASTRUN["builds"], **wit})

    def bump(k, v=1):
        out["hist"][k] = out["hist"].get(k, 0) + v

    def known(key, wit):
        e = o["known"].setdefault(key, {"count": 0, "witness": wit})
        e["count"] += 1

    per = opts.get("per", 12)
    for _ in range(n):
        k = rng.randint(2, 4)
        sseed = rng.randrange(2**31)
        sc = Scenario(random.Random(sseed), k, None, 0)
        tags = list(range(k))
        probes = sc.probes()
        ref = reference(sc, tags, probes)
        mode = rng.choice(opts.get("modes") or ["first", "first", "miss-equal", "miss-diff", "miss-diff", "chain"])
        nthreads = 3 if rng.random() < 0.15 else 2
        if mode == "miss-equal":
            a = rng.randrange(len(probes))
            targs = [a] * nthreads
        else:
            targs = [rng.randrange(len(probes)) for _ in range(nthreads)]
        if mode == "miss-diff" and rng.random() < 0.6:
            # different but RELATED argument types (a class and one of its bases: candidates in common), the class with
            # two bases first when there is one
            rel = [(i, j) for i, ci in enumerate(sc.classes) for j, cj in enumerate(sc.classes) if i != j and issubclass(ci, cj)]
            if rel:
                rel.sort(key=lambda ij: -len(sc.classes[ij[0]].__bases__))
                top = [ij for ij in rel if len(sc.classes[ij[0]].__bases__) == len(sc.classes[rel[0][0]].__bases__)]
                i, j = rng.choice(top) if rng.random() < 0.7 else rng.choice(rel)
                if rng.random() < 0.5:
                    i, j = j, i
                targs = [i, j] + ([rng.choice([i, j])] if nthreads == 3 else [])
        # arguments whose own method exists but whose chain of call_next falls off the end: the continuation lookup
        # then goes through `__missing__` and reads `all[key]` (a path that hits no cached entry)
        falls = [i for i in range(k) if ref[i][0] == "error"]
        if mode in ("miss-equal", "chain") and falls and rng.random() < 0.6:
            targs = [rng.choice(falls)] * nthreads
        elif mode == "chain":
            # prefer arguments whose sequential call goes through call_next
            deep = [i for i, r in enumerate(ref) if r[0] == "ok" and isinstance(r[1], tuple) and len(r[1]) > 2 and isinstance(r[1][2], tuple)]
            if deep:
                targs = [rng.choice(deep) for _ in range(nthreads)]
        routes = [rng.choice(["obj", "fn"]) for _ in range(nthreads)]
        # length of thread 0 alone
        _, lengths = one_run(sc, tags, mode, targs, routes, [(0, None)], probes, ref)
        n0 = max(1, lengths[0])
        positions = list(range(0, n0 + 1))
        wh = (conc.LAST.get("wheres") or [[]])[0]
        # every position inside the publication of a resolution and inside the hand-over of a build, plus a sample
        hot = [i for i, f in enumerate(wh) if f in ("resolve", "__missing__", "ensure_compiled", "compile", "first_entry")]
        # ... and a sample of the positions inside the ranking of the candidates of a cache miss (`mro` and what it calls)
        rank_pos = [i for i, f in enumerate(wh) if f in ("mro", "_pull", "dominates", "sort_key")]
        if rank_pos and not opts.get("exhaustive"):
            hot += rng.sample(rank_pos, min(len(rank_pos), 2 * per))
            # every point at which control passes from one function of the ranking to another
            hot += [i for i in rank_pos if i > 0 and wh[i - 1] != wh[i]] + [i + 1 for i in rank_pos if i + 1 < len(wh) and wh[i + 1] != wh[i]]
            hot = sorted(set(hot))
        # the hand-over of a build: the last events of `_compile` / `compile` / `ensure_compiled` and whatever they call
        # just before (helpers that install the generated entry point, whatever their names)
        ends = [i for i, f in enumerate(wh) if f in ("_compile", "compile", "ensure_compiled")]
        if ends:
            hot += [i for i in range(max(0, ends[-1] - 30), ends[-1] + 3) if i not in hot]
            hot.sort()
        hot = [i for i in hot if i <= n0]
        if opts.get("exhaustive"):
            cuts = positions
        else:
            if len(hot) > 8 * per:
                hot = sorted(rng.sample(hot, 8 * per))
            cuts = sorted(set(rng.sample(positions, min(per, len(positions)))) | set(hot) | {i + 1 for i in hot if i + 1 <= n0})
        bump("cut positions inside resolve / build hand-over", len(hot))
        # three pre-emptions for the racing first calls: thread 0 stops just after a check, thread 1 runs up to
        # the hand-over of its own build, thread 0 resumes for a while (a second build?), thread 1 finishes first
        if mode == "first" and nthreads == 2:
            _, l1 = one_run(sc, tags, mode, targs, routes, [(1, None)], probes, ref)
            wh1 = (conc.LAST.get("wheres") or [[], []])[1]
            hand = ("ensure_compiled", "__call__", "first_entry", "__get__", "compile")
            early0 = [i for i, f in enumerate(wh) if f in hand][:14]
            late1 = [i for i, f in enumerate(wh1) if f in hand and i > len(wh1) * 0.5]
            for _ in range(opts.get("three", 20)):
                c3 = rng.choice(early0 or [1])
                m3 = rng.choice(late1 or [max(1, len(wh1) - 1)])
                k3 = rng.randint(1, max(1, n0))
                segments = [(0, c3), (1, m3), (0, k3), (1, None)]
                bump("schedules: three pre-emptions")
                out["ops"] += 1
                o["n"] += 1
                o["nontrivial"] += 1
                v, _ = one_run(sc, tags, mode, targs, routes, segments, probes, ref)
                built_once({"kind": "conc", "sseed": sseed, "mode": mode, "k": k, "targs": targs, "routes": routes, "segments": segments})
                if v is not None:
                    o["viol"].append({"kind": "conc", "sseed": sseed, "mode": mode, "k": k, "targs": targs, "routes": routes, "segments": segments, **v})
                    break
        for c in cuts:
            if rng.random() < 0.3 and nthreads == 2:
                m = rng.randint(1, max(1, lengths[1] if len(lengths) > 1 and lengths[1] else n0))
                segments = [(0, c), (1, m), (0, None)]
                bump("schedules: two pre-emptions")
            elif nthreads == 3:
                segments = [(0, c), (1, rng.randint(0, n0)), (2, None)]
                bump("schedules: three threads")
            else:
                segments = [(0, c), (1, None)]
                bump("schedules: one pre-emption")
            out["ops"] += 1
            o["n"] += 1
            o["nontrivial"] += 1
            bump("mode:" + mode)
            v, _ = one_run(sc, tags, mode, targs, routes, segments, probes, ref)
            built_once({"kind": "conc", "sseed": sseed, "mode": mode, "k": k, "targs": targs, "routes": routes, "segments": segments})
            if v is not None:
                wit = {"kind": "conc", "sseed": sseed, "mode": mode, "k": k, "targs": targs, "routes": routes, "segments": segments, **v}
                where = (v.get("trace") or [[None, None, None]])[0][2]
                cls = classify(mode, where)
                if cls:
                    known(cls, wit)
                else:
                    o["viol"].append(wit)
                break
    return out


def replay_conc(w):
    """re-run a recorded schedule; True when it still fails"""
    sc = Scenario(random.Random(w["sseed"]), w["k"], None, 0)
    tags = list(range(w["k"]))
    probes = sc.probes()
    ref = reference(sc, tags, probes)
    v, _ = one_run(sc, tags, w["mode"], w["targs"], w["routes"], [tuple(x) for x in w["segments"]], probes, ref)
    if "builds" in w:
        return LASTRUN.get("builds", 0) > 1
    return v is not None


def classify(mode, where):
    """the two race windows of finding D16: the unsynchronised lazy build (a second caller enters while the table
    is being filled / both build at once), and the cache-miss resolution (readers between publication writes)"""
    if where is None:
        return None
    fn = where[0]
    return None


def worker(payload):
    seed, n, opts = payload
    return explore(seed, n, opts)


if __name__ == "__main__":
    import json

    seed = int(sys.argv[1]) if len(sys.argv) > 1 else 0
    n = int(sys.argv[2]) if len(sys.argv) > 2 else 10
    r = explore(seed, n, {})
    print(r["ops"], r["hist"])
    o = r["oracles"]["C19"]
    print("viol", len(o["viol"]), {k: v["count"] for k, v in o["known"].items()})
    for v in o["viol"][:6]:
        print(json.dumps(v, default=str)[:700])
