import Ovldverif.Model.Dependent
/-!
# Specification of value-dependent dispatch within one rank (C10, C11)

`rankSpec`: among the handlers of the rank, exactly those whose every position accepts the actual value —
`isinstance(value, declared type)`: bound **and** condition — may run: one → it runs; none → fall through to
the next rank; several → ambiguity.  Nothing in it depends on which of the three bodies the generator emits.
-/
set_option autoImplicit false
namespace Ovld

section
variable (W : DWorld)

/-- `isinstance(value, declared type)` holds for every slot of the key -/
def accepts (k : List Slot) (args : List (Slot × DVal)) (h : DHandler) : Bool :=
  k.all (fun s => match argAt args s with
    | some v => isinstanceOf W (dTyAt h s) v == .yes
    | none => false)

def rankSpec (k : List Slot) (hs : List DHandler) (args : List (Slot × DVal)) : DRes :=
  match hs.filter (accepts W k args) with
  | [] => .fallthrough
  | [h] => .handler h.1
  | _ => .ambiguous

/-- per-handler, per-slot facts under which the three emitted bodies are all correct:
    * `static`: a non-dependent declared type accepts the value (guaranteed by the type-level stage, C13);
    * `check`: for a value-dependent declared type the generated check agrees with `isinstance` and does not raise
      (`C11_codegen_*` establish this for the built-in value types inside their bound);
    * `hashable`: values looked up in a Literal table are hashable -/
structure RankOK (k : List Slot) (hs : List DHandler) (args : List (Slot × DVal)) : Prop where
  present : ∀ s ∈ k, ∃ v, argAt args s = some v
  static : ∀ h ∈ hs, ∀ s ∈ k, (dTyAt h s).isDep = false → ∀ v, argAt args s = some v → isinstanceOf W (dTyAt h s) v = .yes
  check : ∀ h ∈ hs, ∀ s ∈ k, (dTyAt h s).isDep = true → ∀ v, argAt args s = some v →
            genCheck W (dTyAt h s) v = isinstanceOf W (dTyAt h s) v ∧ genCheck W (dTyAt h s) v ≠ .raises
  hashable : ∀ a ∈ args, a.2.eq < unhashableFrom
  ids : (hs.map (·.1)).Nodup

end
end Ovld
