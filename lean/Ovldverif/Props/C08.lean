import Ovldverif.Props.C16
import Ovldverif.Props.C05
import Ovldverif.Lemmas.GraphCall
/-!
# C08 — recurse always re-enters the overloaded function that was actually called
# (and the behavioural half of C16 / C17: every function in the graph behaves like its overlay)

In the model a method body's `recurse(args)` is a lookup in the table of the function object whose call is being
executed (`runEntry` threads that function's state): for a fresh single function this is "calling the function
again" by definition.  The theorem transports this to every node of an arbitrary derivation graph: a call on
node `n` — including every nested `recurse` / `call_next` its methods perform, for methods inherited from parents
and mixins as well as its own — has the outcome and trace of the same call on a brand-new function carrying the
overlay of `n`'s ancestors' and own current definitions.  In particular inherited methods re-enter `n` (and see
its added and overriding methods), while the parents, on which the same theorem holds with *their* overlay, keep
re-entering themselves.
-/
set_option autoImplicit false
namespace Ovld

/-- the handlers that `compile` creates for node `n` are distinct objects with distinct code objects -/
def Graph.distinctAt (g : Graph) (n : Nat) : Prop := DistinctHandlers (Fn.methsOf (g.defns g.depth n))

/-- every operation keeps or rebuilds every table: the table invariant of every node is preserved -/
theorem Graph.allOK_step (cfg : Cfg) {g : Graph} (h : AllOK cfg g) (op : GOp) : AllOK cfg (g.step cfg op).1 := by
  cases op with
  | create ms lb => exact AllOK.upd h (Graph.create_upd g ms lb)
  | addMixins n ms => exact AllOK.upd h (Graph.addMixins_upd g n ms)
  | register n d => exact AllOK.upd h (Graph.register_upd g n d)
  | unregister n id => exact AllOK.upd h (Graph.unregister_upd g n id)
  | call n c => exact AllOK.call h n c

theorem Graph.allOK_runOps (cfg : Cfg) (ops : List GOp) : ∀ (g : Graph), AllOK cfg g →
    AllOK cfg (Graph.runOps cfg g ops) := by
  induction ops with
  | nil => intro g h; exact h
  | cons op rest ih => intro g h; exact ih _ (Graph.allOK_step cfg h op)

theorem C08_call_as_fresh (cfg : Cfg) (ops : List GOp) (hok : Graph.opsOK cfg {} ops = true)
    (n : Nat) (hn : n < (Graph.runOps cfg {} ops).nodes.length)
    (hd : (Graph.runOps cfg {} ops).distinctAt n) (c : Call) :
    ((Graph.runOps cfg {} ops).call cfg n c).2.1 =
        Fn.outcome ((Fn.fresh ((Graph.runOps cfg {} ops).defns (Graph.runOps cfg {} ops).depth n)).call cfg c) ∧
    ((Graph.runOps cfg {} ops).call cfg n c).2.2.1 =
        Fn.trace ((Fn.fresh ((Graph.runOps cfg {} ops).defns (Graph.runOps cfg {} ops).depth n)).call cfg c) := by
  exact Graph.call_as_fresh cfg _ (Graph.inv_runOps cfg ops {} Inv.empty hok)
    (Graph.allOK_runOps cfg ops {} (AllOK.empty cfg)) n hn hd c

end Ovld
