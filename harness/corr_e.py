"""Correspondence layer E: the real generate_dependent_dispatch (and the codegen of every built-in value type)
vs the Lean model of the three emitted strategies; plus the value-level oracle of C10 / C11 on the real code:
the chosen handler is the one whose `isinstance` holds (bound and condition), whatever strategy was emitted."""

import json
import linecache
import random
import sys
import typing
import zlib

from common import run_driver, use_repo
from world import C_BOOL, C_DICT, C_INT, C_LIST, C_NONE, C_OBJECT, C_STR, C_TUPLE, NBUILTIN, make_world

use_repo()

POOL = [0, 1, 2, 3, True, False, "a", "b", "", "ab", "ba", "abc", None, (), (1,), (1, "a"), ("a", 1), (1, 2), (True, "b"), [], [1], ["a"], [1, "a"], {}, {"a": 1}, {1: "a"}, {"a": 1, "b": 2}]
PARAM_STR = ["a", "b", "ab"]
PARAM_RX = ["a", "^b", "b$"]
FN_STARTS, FN_ENDS, FN_HASKEY, FN_REGEXP = 100, 101, 102, 103


def stable_repr(v):
    if type(v).__module__ != "builtins":
        # instances of the generated classes (module world / abc / types / typing): never their address
        return f"<{type(v).__name__}>"
    if isinstance(v, (tuple, list)):
        return type(v).__name__ + "(" + ",".join(stable_repr(x) for x in v) + ")"
    if isinstance(v, dict):
        return "dict(" + ",".join(stable_repr(k) + ":" + stable_repr(x) for k, x in v.items()) + ")"
    return repr(v)


class EWorld:
    """value pool + dependent types of one scenario"""

    def __init__(self, w, rng):
        self.w = w
        self.values = list(POOL)
        for c in range(NBUILTIN, w.n):
            try:
                self.values.append(object.__new__(w.classes[c]))
            except TypeError:
                pass
        self.intern = {}
        self.next_eq = [0]
        self.vid = {}
        self.by_vid = []
        self.pred_log = []
        w.dep_check = self.dep_check
        self._orig_dep_class = w.dep_class
        w.dep_class = self.dep_class
        self._dep = {}

    # ---- user conditions: a fixed pseudo-random predicate of (fn, params, value)
    def dep_check(self, fn, value, params):
        self.pred_log.append((fn, params, value))
        return zlib.crc32(repr((fn, params, stable_repr(value))).encode()) % 2 == 0

    def dep_class(self, fn):
        from ovld.dependent import EndsWith, HasKey, Regexp, StartsWith

        if fn >= 100:
            return {FN_STARTS: StartsWith, FN_ENDS: EndsWith, FN_HASKEY: HasKey, FN_REGEXP: Regexp}[fn]
        return self._orig_dep_class(fn)

    def param_obj(self, fn, p):
        if p is None:
            return typing.Any
        if fn == FN_REGEXP:
            return PARAM_RX[p % len(PARAM_RX)]
        if fn >= 100:
            return PARAM_STR[p % len(PARAM_STR)]
        return f"p{p}"

    def ty(self, d):
        """like World.ty but with built-in dependent types and pool-indexed literals"""
        from ovld.dependent import Equals, ProductType
        from ovld.types import Intersection, Union

        k = d[0]
        # every other descriptor is spelled the way the documentation spells a re-bounded check,
        # `Dependent[bound, check]` (the check first gets its own default bound), the others pass `bound=`
        spelled = zlib.crc32(json.dumps(d).encode()) % 2 == 0
        if k == "lit":
            if spelled:
                from ovld.dependent import Dependent

                return Dependent[self.ty(d[2]), Equals(*[POOL[i] for i in d[1]])]
            return Equals(*[POOL[i] for i in d[1]], bound=self.ty(d[2]))
        if k == "prod":
            if spelled:
                from ovld.dependent import Dependent

                return Dependent[self.ty(d[2]), ProductType(*[self.ty(a) for a in d[1]])]
            return ProductType(*[self.ty(a) for a in d[1]], bound=self.ty(d[2]))
        if k == "fdep":
            key = json.dumps(d)
            if key not in self._dep:
                cls = self.dep_class(d[1])
                self._dep[key] = cls(*[self.param_obj(d[1], p) for p in d[2]], bound=self.ty(d[3]))
            return self._dep[key]
        if k == "union":
            return Union[tuple(self.ty(a) for a in d[1])]
        if k == "inter":
            return Intersection[tuple(self.ty(a) for a in d[1])]
        return self.w.ty(d)

    def tyj(self, d):
        k = d[0]
        if k == "lit":
            return ["lit", [self.enc(POOL[i])["eq"] for i in d[1]], self.tyj(d[2])]
        if k == "prod":
            return ["prod", [self.tyj(a) for a in d[1]], self.tyj(d[2])]
        if k == "fdep":
            return ["fdep", d[1], d[2], self.tyj(d[3])]
        if k in ("union", "inter"):
            return [k, [self.tyj(a) for a in d[1]]]
        return self.w.tyj(d)

    # ---- values
    def cls_id(self, v):
        t = type(v)
        for i, c in enumerate(self.w.classes):
            if c is t:
                return i
        return C_OBJECT

    def enc(self, v, char=False):
        try:
            eq = self.intern.setdefault(v, None)
            if eq is None:
                eq = self.intern[v] = len(self.intern) + 1000
        except TypeError:
            eq = 500000 + id(v) % 100000
        key = id(v)
        if key not in self.vid or self.by_vid[self.vid[key]] is not v:
            self.vid[key] = len(self.by_vid)
            self.by_vid.append(v)
        vid = self.vid[key]
        if isinstance(v, (tuple, list)):
            kind, elems = "seq", [self.enc(x) for x in v]
        elif isinstance(v, str) and not char:
            kind, elems = "seq", [self.enc(ch, char=True) for ch in v]
        elif isinstance(v, dict):
            kind, elems = "sized", [self.enc(x) for x in v]
        else:
            kind, elems = "plain", []
        return {"vid": vid, "cls": self.cls_id(v), "eq": eq, "kind": kind, "elems": elems}


def all_fdeps(d, acc):
    if d[0] == "fdep":
        acc.append(d)
        all_fdeps(d[3], acc)
    elif d[0] in ("union", "inter"):
        for x in d[1]:
            all_fdeps(x, acc)
    elif d[0] == "prod":
        for x in d[1]:
            all_fdeps(x, acc)
        all_fdeps(d[2], acc)
    elif d[0] == "lit":
        all_fdeps(d[2], acc)
    return acc


def tri(f):
    try:
        return "y" if f() else "n"
    except Exception:
        return "r"


def gen_dep_type(rng, ew, key_cls, depth=2, allow_combo=True, force_combo=False):
    """a declared type applicable (at type level) to run-time class `key_cls`"""
    w = ew.w
    supers = [c for c in range(w.n) if w.tables_cache["sub"][key_cls][c]]
    bound = ["cls", rng.choice(supers)]
    # now and then the bound is a user class predicate (class_check): its hook counter is what C20 watches
    pk = [k for k, row in enumerate(w.tables_cache["pred"][:3]) if row[key_cls]]
    if pk and rng.random() < 0.2:
        k = rng.choice(pk)
        bound = ["pred", 9000 + k, k]
    r = rng.random()
    if force_combo and depth > 0:
        r = 0.85  # a Union / Intersection, with a nested one inside more often than not
    vals_here = [i for i, v in enumerate(POOL) if type(v) is w.classes[key_cls]]
    if r < 0.4 and vals_here:
        n = rng.choice([1, 1, 1, 2, 3])
        vs = [rng.choice(vals_here if rng.random() < 0.85 else list(range(len(POOL)))) for _ in range(n)]
        vs = [v for v in vs if not isinstance(POOL[v], (list, dict))] or [vals_here[0] if not isinstance(POOL[vals_here[0]], (list, dict)) else 0]
        b = ["cls", ew.cls_id(POOL[vs[0]])] if rng.random() < 0.55 else bound
        if b[0] == "cls" and not w.tables_cache["sub"][key_cls][b[1]]:
            b = bound
        return ["lit", vs, b]
    if r < 0.6:
        fn = rng.randrange(3)
        ps = [None if rng.random() < 0.2 else rng.randrange(3) for _ in range(rng.choice([0, 1, 1, 2]))]
        return ["fdep", fn, ps, bound]
    if r < 0.72 and key_cls == C_STR:
        fn = rng.choice([FN_STARTS, FN_ENDS, FN_REGEXP])
        return ["fdep", fn, [rng.randrange(3)], ["cls", C_STR]]
    if r < 0.72 and key_cls == C_DICT:
        return ["fdep", FN_HASKEY, [rng.randrange(2)], ["cls", C_DICT]]
    if r < 0.8 and key_cls == C_TUPLE:
        n = rng.choice([0, 1, 2, 2])
        elems = [rng.choice([["cls", C_INT], ["cls", C_STR], ["cls", C_OBJECT], ["cls", C_BOOL], ["lit", [1], ["cls", C_INT]]]) for _ in range(n)]
        return ["prod", elems, ["cls", C_TUPLE]]
    if r < 0.9 and allow_combo and depth > 0:
        k = rng.choice(["union", "inter"])
        other_cls = rng.choice([C_INT, C_STR, C_DICT, C_LIST, key_cls, key_cls])
        members = [gen_dep_type(rng, ew, key_cls, depth - 1, allow_combo=force_combo or rng.random() < 0.5, force_combo=force_combo and rng.random() < 0.7)]
        m2 = gen_dep_type(rng, ew, other_cls, depth - 1, allow_combo=False) if rng.random() < 0.7 else ["cls", rng.choice(supers)]
        if k == "inter" and m2[0] != "cls" and other_cls != key_cls:
            m2 = gen_dep_type(rng, ew, key_cls, depth - 1, allow_combo=False)
        members.append(m2)
        rng.shuffle(members)
        return [k, members]
    return bound


def gen_applicable_type(rng, ew, key_cls, **kw):
    """a generated declared type that is applicable to `key_cls` at the type level (as every handler of a real
    rank is): checked with the real subclasscheck"""
    from ovld.mro import subclasscheck

    for _ in range(6):
        t = gen_dep_type(rng, ew, key_cls, **kw)
        try:
            if subclasscheck(ew.w.classes[key_cls], ew.ty(t)):
                return t
        except Exception:
            pass
    return ["cls", key_cls]


def gen_scenario(rng, steer=None):
    w = make_world(rng, nuser=rng.randint(1, 3))
    w.tables_cache = w.tables()
    ew = EWorld(w, rng)
    nslots = rng.choice([1, 1, 2])
    key_classes = []
    for _ in range(nslots):
        key_classes.append(rng.choice([C_INT, C_INT, C_BOOL, C_STR, C_STR, C_TUPLE, C_DICT, C_LIST] + list(range(NBUILTIN, w.n))))
    nh = rng.choice([1, 2, 2, 3, 3, 4, 5, 6])
    handlers = []
    for i in range(nh):
        types = []
        dep_seen = False
        for s in range(nslots):
            if rng.random() < (0.85 if not dep_seen else 0.3):
                t = gen_applicable_type(rng, ew, key_classes[s], force_combo=(steer == "combos" and rng.random() < 0.7))
                dep_seen = dep_seen or t[0] != "cls"
            else:
                supers = [c for c in range(w.n) if w.tables_cache["sub"][key_classes[s]][c]]
                t = ["cls", rng.choice(supers)]
            if s > 0 and rng.random() < 0.5:
                # the very same annotation on two positions whose run-time types may differ
                from ovld.mro import subclasscheck as _sc

                t0 = types[0][2]
                try:
                    if _sc(w.classes[key_classes[s]], ew.ty(t0)):
                        t = t0
                except Exception:  # noqa
                    pass
            types.append(["p", s, t])
        if not any(x[2][0] != "cls" for x in types) and i == 0:
            types[0][2] = gen_applicable_type(rng, ew, key_classes[0], allow_combo=False)
        handlers.append({"id": i, "types": types})
    if steer == "literals":
        # many single-valued int literals around the lookup-table threshold, some overlapping
        key_classes = [C_INT]
        nh = rng.choice([2, 3, 4, 5, 6])
        ints = [0, 1, 2, 3, 4]  # pool indices of 0, 1, 2, 3 and True (== 1)
        handlers = []
        disjoint = rng.random() < 0.5
        avail = [0, 1, 2, 3]
        rng.shuffle(avail)
        for i in range(nh):
            n = rng.choice([1, 1, 2, 3])
            if disjoint:
                vs = [avail.pop()] if avail else []
                if not vs:
                    break
            else:
                vs = [rng.choice(ints) for _ in range(n)]
            handlers.append({"id": i, "types": [["p", 0, ["lit", vs, ["cls", C_INT]]]]})
        if rng.random() < 0.4:
            handlers.append({"id": len(handlers), "types": [["p", 0, ["lit", [4 if rng.random() < 0.5 else 1], ["cls", C_INT]]]]})
        nslots = 1
        if rng.random() < 0.4:
            # a second dispatched position that is value-dependent in SOME of the handlers only: the lookup-table
            # body checks one condition per handler, so it must not be chosen here
            k2 = rng.choice([C_STR, C_INT])
            key_classes = [C_INT, k2]
            nslots = 2
            supers2 = [c for c in range(w.n) if w.tables_cache["sub"][k2][c]]
            for hi, h in enumerate(handlers):
                if rng.random() < 0.45 or hi == 0:
                    t2 = gen_applicable_type(rng, ew, k2, allow_combo=False)
                else:
                    t2 = ["cls", rng.choice(supers2)]
                h["types"].append(["p", 1, t2])
        elif rng.random() < 0.3:
            # Literals of several value types are bounded by `object`: any value reaches the dispatcher, including
            # unhashable ones on the lookup-table path
            key_classes = [C_OBJECT]
            strs = [i for i, v in enumerate(POOL) if isinstance(v, str)]
            for h in handlers:
                vs = h["types"][0][2][1] + ([rng.choice(strs)] if rng.random() < 0.5 else [])
                h["types"][0][2] = ["lit", vs, ["cls", C_OBJECT]]
    calls = []
    for _ in range(rng.randint(3, 8)):
        args = []
        for s in range(nslots):
            c = key_classes[s]
            if c == C_OBJECT and steer == "literals":
                args.append(rng.choice(POOL))
                continue
            cands = [v for v in ew.values if type(v) is w.classes[c]]
            if not cands:
                cands = [v for v in ew.values if isinstance(v, w.classes[c])] or [0]
            args.append(rng.choice(cands))
        calls.append(args)
    return w, ew, {"slots": [["p", s] for s in range(nslots)], "key_classes": key_classes, "handlers": handlers, "calls": calls}


def run_impl(w, ew, sc):
    from ovld.recode import generate_dependent_dispatch

    del ew.pred_log[:]
    tup = tuple(w.classes[c] for c in sc["key_classes"])
    hfns = {}

    def mk(i):
        def h(*a, **k):
            return ("H", i)

        h.__name__ = f"h{i}"
        return h

    hs = []
    for hd in sc["handlers"]:
        f = mk(hd["id"])
        hfns[hd["id"]] = f
        hs.append((f, tuple(ew.ty(t[2]) for t in hd["types"])))

    def FT(*a, **k):
        return ("FT",)

    class Amb(Exception):
        pass

    try:
        fn = generate_dependent_dispatch(tup, hs, (FT, []), "", name="verif_dd", err=Amb("amb"), nerr=TypeError("none"))
    except Exception as e:  # noqa
        return {"strategy": "error:" + type(e).__name__, "res": [], "guard": []}
    src = "".join(linecache.cache.get(fn.__code__.co_filename, (0, 0, [], ""))[2])
    strategy = "keyed" if ".get(" in src else "counting" if "SUMMATION" in src else "first"
    res = []
    guard = []
    for args in sc["calls"]:
        n0 = len(ew.pred_log)
        try:
            r = fn(*args)
            res.append(["handler", r[1]] if r[0] == "H" else ["fallthrough"])
        except Amb:
            res.append(["ambiguous"])
        except Exception as e:  # noqa
            res.append(["raised"])
        guard.append(ew.pred_log[n0:])
    return {"strategy": strategy, "res": res, "src": src, "guard": guard}


def to_model(w, ew, sc):
    chk = []
    fds = []
    for hd in sc["handlers"]:
        for t in hd["types"]:
            all_fdeps(t[2], fds)
    seen = set()
    # encode all call values first so that every (sub-)value has a vid
    enc_calls = [[["p", s, ew.enc(v)] for s, v in enumerate(args)] for args in sc["calls"]]
    n_logged = len(ew.pred_log)
    for d in fds:
        k = json.dumps(d[:3])
        if k in seen:
            continue
        seen.add(k)
        T = ew.ty(d)
        for vid, v in enumerate(ew.by_vid):
            chk.append([d[1], d[2], vid, tri(lambda: T.check(v))])
    del ew.pred_log[n_logged:]
    metas = []
    kinds = {}
    for c in w.classes:
        metas.append(kinds.setdefault(type(c), len(kinds)))
    return {
        "layer": "E",
        "hier": w.tables_cache,
        "meta": metas,
        "chk": chk,
        "slots": sc["slots"],
        "handlers": [{"id": h["id"], "types": [[t[0], t[1], ew.tyj(t[2])] for t in h["types"]]} for h in sc["handlers"]],
        "calls": enc_calls,
    }


def run(seed, n, steer=None):
    rng = random.Random(seed)
    scs, impls, keep = [], [], []
    for _ in range(n):
        w, ew, sc = gen_scenario(rng, steer=steer if steer else ("literals" if rng.random() < 0.25 else None))
        m = to_model(w, ew, sc)
        impls.append(run_impl(w, ew, sc))
        scs.append(m)
        keep.append((w, ew, sc))
    res = run_driver(scs)
    diffs, ncalls, hist = [], 0, {}
    for i, (r, im) in enumerate(zip(res, impls)):
        if "error" in r:
            diffs.append((i, "driver-error", r["error"]))
            continue
        hist[im["strategy"]] = hist.get(im["strategy"], 0) + 1
        if r["strategy"] != im["strategy"]:
            diffs.append((i, "strategy", r["strategy"], im["strategy"], keep[i][2], im.get("src")))
            continue
        for j, (a, b) in enumerate(zip(r["res"], im["res"])):
            ncalls += 1
            hist[b[0]] = hist.get(b[0], 0) + 1
            if a != b:
                diffs.append((i, j, "model", a, "impl", b, keep[i][2]["handlers"], [stable_repr(v) for v in keep[i][2]["calls"][j]], im.get("src")))
                break
    return ncalls, diffs, hist, keep


if __name__ == "__main__":
    seed = int(sys.argv[1]) if len(sys.argv) > 1 else 0
    n = int(sys.argv[2]) if len(sys.argv) > 2 else 50
    ncalls, diffs, hist, keep = run(seed, n)
    print("calls", ncalls, "diffs", len(diffs), hist)
    for d in diffs[:5]:
        print(json.dumps(d, default=str)[:1800])
