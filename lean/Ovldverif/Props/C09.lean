import Ovldverif.Model.Rewrite
/-!
# C09 — source rewriting changes nothing except the recurse / call_next call sites (expression subset of Model/Rewrite.lean)

`C09_rewrite_preserves`: for every well-formed expression that does not mention the reserved temporaries, the
rewritten expression yields the same value or exception, the same sequence of side effects, and the same user
variables — each positional and keyword argument expression of `recurse(...)` / `call_next(...)` is evaluated
exactly once, left to right (positional arguments, then keyword values), before the lookup; the lookup consults
the same table with the same key as the reference dispatcher (`G.dispatchObj` / `G.nextObj`).
`C09_args_once_in_order` (`…_next`): the log seen by the dispatched method for tick-tagged arguments.
`rw_id`: expressions without such calls are returned unchanged.

Proof layout: `Sim` (result, log, user variables equal; temporaries outside the consumed prefix range untouched);
`PArgs` / `PKwArgs` say what evaluating the key parts `type(__TMPk_i := aᵢ')` / `('n', type(__TMPk_n := e'))` achieves;
`sim_call` is the call-site lemma shared by `recurse` and `call_next`; `pExpr` is the induction over expression size.
(`match` expressions written in this file never have to unify with those of the model: matchers are not shared
across modules.)
-/
set_option autoImplicit false
namespace Ovld.Rw

def Agree (ρ ρ₂ : Env) : Prop := ∀ s, ρ₂ (.user s) = ρ (.user s)
/-- temporaries with an index outside [k, k') are untouched -/
def Frame (k k' : Nat) (ρ₂ ρ₂' : Env) : Prop := ∀ j s, (j < k ∨ j ≥ k') → ρ₂' (.tmp j s) = ρ₂ (.tmp j s)

theorem Frame.refl (k k' : Nat) (ρ : Env) : Frame k k' ρ ρ := fun _ _ _ => rfl
theorem Frame.trans {a b c : Nat} {ρ0 ρ1 ρ2 : Env} (h1 : Frame a b ρ0 ρ1) (h2 : Frame b c ρ1 ρ2) (hab : a ≤ b) (hbc : b ≤ c) :
    Frame a c ρ0 ρ2 := by
  intro j s hj
  rw [h2 j s (by omega), h1 j s (by omega)]
theorem Frame.widen {a b a' b' : Nat} {ρ0 ρ1 : Env} (h : Frame a b ρ0 ρ1) (ha : a' ≤ a) (hb : b ≤ b') : Frame a' b' ρ0 ρ1 := by
  intro j s hj; exact h j s (by omega)

theorem Agree.setUser {ρ ρ₂ : Env} (h : Agree ρ ρ₂) (x : String) (v : Val) : Agree (setVar ρ (.user x) v) (setVar ρ₂ (.user x) v) := by
  intro s; simp only [setVar]; by_cases e : Name.user s = Name.user x <;> simp [e, h s]
theorem Agree.setTmp {ρ ρ₂ : Env} (h : Agree ρ ρ₂) (k : Nat) (sl : Slot) (v : Val) : Agree ρ (setVar ρ₂ (.tmp k sl) v) := by
  intro s; simp [setVar, h s]

/-- the simulation relation between a run of the original and of the rewritten expression -/
structure Sim {α : Type} (k k' : Nat) (ρ₂ : Env) (o o₂ : Except Exn α × Env × Log) : Prop where
  res : o₂.1 = o.1
  log : o₂.2.2 = o.2.2
  agree : Agree o.2.1 o₂.2.1
  frame : Frame k k' ρ₂ o₂.2.1

structure WOK (W : World) : Prop where
  recurse : W.globals "recurse" = some (.g .dispatchObj)
  map : W.globals "MAP" = some (.g .mapObj)
  typ : W.globals "type" = some (.g .typeFn)
  callNext : W.globals "call_next" = some (.g .nextObj)
  code : W.globals "CODE" = some (.g (.codeObj W.code))

def PExpr (W : World) (e : Expr) : Prop :=
  ∀ (k : Nat) (ρ ρ₂ : Env) (l : Log), userOnly e = true → Agree ρ ρ₂ →
    k ≤ (rw e k).2 ∧ Sim k (rw e k).2 ρ₂ (eval W e ρ l) (eval W (rw e k).1 ρ₂ l)

def PList (W : World) (es : List Expr) : Prop :=
  ∀ (k : Nat) (ρ ρ₂ : Env) (l : Log), userOnlyL es = true → Agree ρ ρ₂ →
    k ≤ (rwList es k).2 ∧ Sim k (rwList es k).2 ρ₂ (evalList W es ρ l) (evalList W (rwList es k).1 ρ₂ l)

def PKws (W : World) (es : List (String × Expr)) : Prop :=
  ∀ (k : Nat) (ρ ρ₂ : Env) (l : Log), userOnlyK es = true → Agree ρ ρ₂ →
    k ≤ (rwKwList es k).2 ∧ Sim k (rwKwList es k).2 ρ₂ (evalKws W es ρ l) (evalKws W (rwKwList es k).1 ρ₂ l)

theorem pList_of (W : World) : ∀ (es : List Expr), (∀ e ∈ es, PExpr W e) → PList W es
  | [], _ => by
    intro k ρ ρ₂ l _ ha
    simp only [rwList, evalList]
    exact ⟨Nat.le_refl _, ⟨rfl, rfl, ha, Frame.refl _ _ _⟩⟩
  | e :: es, h => by
    intro k ρ ρ₂ l hu ha
    simp only [userOnlyL, Bool.and_eq_true] at hu
    have he := h e (List.mem_cons_self ..) k ρ ρ₂ l hu.1 ha
    have hes := pList_of W es (fun x hx => h x (List.mem_cons_of_mem _ hx))
    simp only [rwList, evalList]
    obtain ⟨hk, ⟨hr, hl, hag, hf⟩⟩ := he
    generalize hE : eval W e ρ l = o at hr hl hag
    generalize hE2 : eval W (rw e k).1 ρ₂ l = o2 at hr hl hag hf
    obtain ⟨r, ρ', l'⟩ := o
    obtain ⟨r2, ρ2', l2'⟩ := o2
    simp only at hr hl hag hf
    subst hr; subst hl
    cases r2 with
    | error ex => exact ⟨by have := (hes (rw e k).2 ρ' ρ2' l2' hu.2 hag).1; omega, ⟨rfl, rfl, hag, hf.widen (Nat.le_refl _) (hes (rw e k).2 ρ' ρ2' l2' hu.2 hag).1⟩⟩
    | ok v =>
      have h2 := hes (rw e k).2 ρ' ρ2' l2' hu.2 hag
      obtain ⟨hk2, ⟨hr2, hl2, hag2, hf2⟩⟩ := h2
      refine ⟨by omega, ?_⟩
      dsimp only
      generalize hF : evalList W es ρ' l2' = p at hr2 hl2 hag2
      generalize hF2 : evalList W (rwList es (rw e k).2).1 ρ2' l2' = p2 at hr2 hl2 hag2 hf2
      obtain ⟨q, ρq, lq⟩ := p
      obtain ⟨q2, ρq2, lq2⟩ := p2
      simp only at hr2 hl2 hag2 hf2
      subst hr2; subst hl2
      cases q2 with
      | error ex => exact ⟨rfl, rfl, hag2, hf.trans hf2 hk hk2⟩
      | ok vs => exact ⟨rfl, rfl, hag2, hf.trans hf2 hk hk2⟩


theorem pKws_of (W : World) : ∀ (es : List (String × Expr)), (∀ p ∈ es, PExpr W p.2) → PKws W es
  | [], _ => by
    intro k ρ ρ₂ l _ ha
    simp only [rwKwList, evalKws]
    exact ⟨Nat.le_refl _, ⟨rfl, rfl, ha, Frame.refl _ _ _⟩⟩
  | (n, e) :: es, h => by
    intro k ρ ρ₂ l hu ha
    simp only [userOnlyK, Bool.and_eq_true] at hu
    have he : PExpr W e := h (n, e) (List.mem_cons_self ..)
    have he := he k ρ ρ₂ l hu.1 ha
    have hes := pKws_of W es (fun x hx => h x (List.mem_cons_of_mem _ hx))
    simp only [rwKwList, evalKws]
    obtain ⟨hk, ⟨hr, hl, hag, hf⟩⟩ := he
    generalize hE : eval W e ρ l = o at hr hl hag
    generalize hE2 : eval W (rw e k).1 ρ₂ l = o2 at hr hl hag hf
    obtain ⟨r, ρ', l'⟩ := o
    obtain ⟨r2, ρ2', l2'⟩ := o2
    simp only at hr hl hag hf
    subst hr; subst hl
    cases r2 with
    | error ex => exact ⟨by have := (hes (rw e k).2 ρ' ρ2' l2' hu.2 hag).1; omega, ⟨rfl, rfl, hag, hf.widen (Nat.le_refl _) (hes (rw e k).2 ρ' ρ2' l2' hu.2 hag).1⟩⟩
    | ok v =>
      have h2 := hes (rw e k).2 ρ' ρ2' l2' hu.2 hag
      obtain ⟨hk2, ⟨hr2, hl2, hag2, hf2⟩⟩ := h2
      refine ⟨by omega, ?_⟩
      dsimp only
      generalize hF : evalKws W es ρ' l2' = p at hr2 hl2 hag2
      generalize hF2 : evalKws W (rwKwList es (rw e k).2).1 ρ2' l2' = p2 at hr2 hl2 hag2 hf2
      obtain ⟨q, ρq, lq⟩ := p
      obtain ⟨q2, ρq2, lq2⟩ := p2
      simp only at hr2 hl2 hag2 hf2
      subst hr2; subst hl2
      cases q2 with
      | error ex => exact ⟨rfl, rfl, hag2, hf.trans hf2 hk hk2⟩
      | ok vs => exact ⟨rfl, rfl, hag2, hf.trans hf2 hk hk2⟩

/-- evaluation of `type(__TMP := a')` -/
theorem eval_typeCall (W : World) (ok : WOK W) (x : Name) (a : Expr) (ρ : Env) (l : Log) :
    eval W (typeCall x a) ρ l =
      match eval W a ρ l with
      | (.ok v, ρ', l') => (.ok (.ty (W.classOf v)), setVar ρ' x v, l')
      | (.error e, ρ', l') => (.error e, ρ', l') := by
  simp only [typeCall, eval, ok.typ, evalList, evalKws]
  generalize eval W a ρ l = o
  obtain ⟨r, ρ', l'⟩ := o
  cases r with
  | error e => rfl
  | ok v => simp [applyVal]

/-- what evaluating the key parts `type(__TMPk_i := aᵢ')` achieves, relative to evaluating the original arguments -/
def PArgs (W : World) (as : List Expr) : Prop :=
  ∀ (k i c : Nat) (ρ ρ₂ : Env) (l : Log), userOnlyL as = true → Agree ρ ρ₂ → k < c →
    c ≤ (rwArgs as k i c).2 ∧
    (match evalList W as ρ l with
     | (.ok avs, ρ', l') =>
        ∃ ρ₂', evalList W (rwArgs as k i c).1 ρ₂ l = (.ok (avs.map (fun v => Val.ty (W.classOf v))), ρ₂', l')
          ∧ Agree ρ' ρ₂'
          ∧ (∀ j s, (j < k ∨ j ≥ (rwArgs as k i c).2) → ρ₂' (.tmp j s) = ρ₂ (.tmp j s))
          ∧ (∀ s, (∀ m, m < avs.length → s ≠ Slot.pos (i + m)) → ρ₂' (.tmp k s) = ρ₂ (.tmp k s))
          ∧ (∀ m (h : m < avs.length), ρ₂' (.tmp k (.pos (i + m))) = some avs[m])
          ∧ avs.length = as.length
     | (.error e, ρ', l') =>
        ∃ ρ₂', evalList W (rwArgs as k i c).1 ρ₂ l = (.error e, ρ₂', l') ∧ Agree ρ' ρ₂'
          ∧ (∀ j s, (j < k ∨ j ≥ (rwArgs as k i c).2) → ρ₂' (.tmp j s) = ρ₂ (.tmp j s)))

theorem pArgs_of (W : World) (ok : WOK W) : ∀ (as : List Expr), (∀ e ∈ as, PExpr W e) → PArgs W as
  | [], _ => by
    intro k i c ρ ρ₂ l _ ha _
    simp only [rwArgs, evalList]
    refine ⟨Nat.le_refl _, ρ₂, rfl, ha, fun _ _ _ => rfl, fun _ _ => rfl, ?_, rfl⟩
    intro m h; simp at h
  | a :: as, h => by
    intro k i c ρ ρ₂ l hu ha hkc
    simp only [userOnlyL, Bool.and_eq_true] at hu
    have he := h a (List.mem_cons_self ..) c ρ ρ₂ l hu.1 ha
    have hes := pArgs_of W ok as (fun x hx => h x (List.mem_cons_of_mem _ hx))
    obtain ⟨hk, ⟨hr, hl, hag, hf⟩⟩ := he
    simp only [rwArgs, evalList]
    rw [eval_typeCall W ok]
    generalize hE : eval W a ρ l = o at hr hl hag
    generalize hE2 : eval W (rw a c).1 ρ₂ l = o2 at hr hl hag hf
    obtain ⟨r, ρ', l'⟩ := o
    obtain ⟨r2, ρ2', l2'⟩ := o2
    simp only at hr hl hag hf
    subst hr; subst hl
    have hrest := hes k (i + 1) (rw a c).2 ρ' (setVar ρ2' (.tmp k (.pos i)) (match r2 with | .ok v => v | .error _ => .int 0)) l2' hu.2
    cases r2 with
    | error ex =>
      dsimp only
      have hc2 := (hes k (i+1) (rw a c).2 ρ' ρ2' l2' hu.2 hag (by omega)).1
      refine ⟨by omega, ρ2', rfl, hag, ?_⟩
      intro j s hj
      exact hf j s (by omega)
    | ok v =>
      dsimp only at hrest ⊢
      have hag' : Agree ρ' (setVar ρ2' (.tmp k (.pos i)) v) := hag.setTmp k (.pos i) v
      obtain ⟨hc2, hmatch⟩ := hrest hag' (by omega)
      refine ⟨by omega, ?_⟩
      generalize hF : evalList W as ρ' l2' = p at hmatch
      obtain ⟨q, ρq, lq⟩ := p
      cases q with
      | error ex =>
        dsimp only at hmatch ⊢
        obtain ⟨ρ₂', hev, hag2, hfr⟩ := hmatch
        refine ⟨ρ₂', by rw [hev], hag2, ?_⟩
        intro j s hj
        rw [hfr j s (by omega)]
        have : Name.tmp j s ≠ Name.tmp k (.pos i) := by
          intro e; injection e with e1 _; omega
        simp only [setVar, this, if_false]
        exact hf j s (by omega)
      | ok vs =>
        dsimp only at hmatch ⊢
        obtain ⟨ρ₂', hev, hag2, hfr, hother, hslots, hlen⟩ := hmatch
        refine ⟨ρ₂', by rw [hev]; rfl, hag2, ?_, ?_, ?_, by simp [hlen]⟩
        · intro j s hj
          rw [hfr j s (by omega)]
          have : Name.tmp j s ≠ Name.tmp k (.pos i) := by
            intro e; injection e with e1 _; omega
          simp only [setVar, this, if_false]
          exact hf j s (by omega)
        · intro s hs
          rw [hother s (by
            intro m hm e
            exact hs (m + 1) (by simp only [List.length_cons]; omega) (by rw [e]; congr 1; omega))]
          have : Name.tmp k s ≠ Name.tmp k (.pos i) := by
            intro e; injection e with _ e2
            exact hs 0 (by simp) (by simpa using e2)
          simp only [setVar, this, if_false]
          exact hf k s (by omega)
        · intro m hm
          cases m with
          | zero =>
            simp only [Nat.add_zero, List.getElem_cons_zero]
            rw [hother (.pos i) (by intro m _ e; injection e with e; omega)]
            simp [setVar]
          | succ m =>
            have := hslots m (by simpa using hm)
            simp only [List.getElem_cons_succ]
            have e : i + (m + 1) = i + 1 + m := by omega
            rw [e]; exact this

theorem evalList_tmpVars (W : World) (k : Nat) (ρ : Env) (l : Log) :
    ∀ (as : List Expr) (avs : List Val) (i : Nat), avs.length = as.length →
      (∀ m (h : m < avs.length), ρ (.tmp k (.pos (i + m))) = some avs[m]) →
      evalList W (tmpVars k i as) ρ l = (.ok avs, ρ, l)
  | [], [], _, _, _ => by simp [tmpVars, evalList]
  | [], _ :: _, _, h, _ => by simp at h
  | _ :: _, [], _, h, _ => by simp at h
  | a :: as, v :: vs, i, hlen, hs => by
    have h0 := hs 0 (by simp)
    simp only [Nat.add_zero, List.getElem_cons_zero] at h0
    have ih := evalList_tmpVars W k ρ l as vs (i + 1) (by simpa using hlen) (by
      intro m hm
      have := hs (m + 1) (by simp only [List.length_cons]; omega)
      simp only [List.getElem_cons_succ] at this
      have e : i + 1 + m = i + (m + 1) := by omega
      rw [e]; exact this)
    simp only [tmpVars, evalList, eval, h0, ih]


/-- evaluation of `('name', type(__TMP := a'))` -/
theorem eval_pairTypeCall (W : World) (ok : WOK W) (nm : String) (x : Name) (a : Expr) (ρ : Env) (l : Log) :
    eval W (.pair nm (typeCall x a)) ρ l =
      match eval W a ρ l with
      | (.ok v, ρ', l') => (.ok (.kwTy nm (W.classOf v)), setVar ρ' x v, l')
      | (.error e, ρ', l') => (.error e, ρ', l') := by
  simp only [eval]
  rw [eval_typeCall W ok]
  generalize eval W a ρ l = o
  obtain ⟨r, ρ', l'⟩ := o
  cases r with
  | error e => rfl
  | ok v => rfl

/-- what evaluating the key parts `('n', type(__TMPk_n := e'))` achieves, relative to evaluating the original keyword
    values: same values/effects, the temporaries `__TMPk_n` hold the values (read back by `n=__TMPk_n`), no other slot
    of prefix `k` is touched -/
def PKwArgs (W : World) (kws : List (String × Expr)) : Prop :=
  ∀ (k c : Nat) (ρ ρ₂ : Env) (l : Log), userOnlyK kws = true → distinctNames (kws.map Prod.fst) = true → Agree ρ ρ₂ → k < c →
    c ≤ (rwKws kws k c).2 ∧
    (match evalKws W kws ρ l with
     | (.ok kvs, ρ', l') =>
        ∃ ρ₂', evalList W (rwKws kws k c).1 ρ₂ l = (.ok (kvs.map (fun p => Val.kwTy p.1 (W.classOf p.2))), ρ₂', l')
          ∧ Agree ρ' ρ₂'
          ∧ (∀ j s, (j < k ∨ j ≥ (rwKws kws k c).2) → ρ₂' (.tmp j s) = ρ₂ (.tmp j s))
          ∧ (∀ s, (∀ n, n ∈ kws.map Prod.fst → s ≠ Slot.kw n) → ρ₂' (.tmp k s) = ρ₂ (.tmp k s))
          ∧ (∀ l'', evalKws W (tmpKws k kws) ρ₂' l'' = (.ok kvs, ρ₂', l''))
     | (.error e, ρ', l') =>
        ∃ ρ₂', evalList W (rwKws kws k c).1 ρ₂ l = (.error e, ρ₂', l') ∧ Agree ρ' ρ₂'
          ∧ (∀ j s, (j < k ∨ j ≥ (rwKws kws k c).2) → ρ₂' (.tmp j s) = ρ₂ (.tmp j s)))

theorem pKwArgs_of (W : World) (ok : WOK W) : ∀ (kws : List (String × Expr)), (∀ p ∈ kws, PExpr W p.2) → PKwArgs W kws
  | [], _ => by
    intro k c ρ ρ₂ l _ _ ha _
    simp only [rwKws, evalKws, evalList]
    refine ⟨Nat.le_refl _, ρ₂, rfl, ha, fun _ _ _ => rfl, fun _ _ => rfl, ?_⟩
    intro l''; simp only [tmpKws, evalKws]
  | (nm, a) :: kws, h => by
    intro k c ρ ρ₂ l hu hd ha hkc
    simp only [userOnlyK, Bool.and_eq_true] at hu
    simp only [List.map_cons, distinctNames, Bool.and_eq_true, Bool.not_eq_true', List.contains_eq_mem,
      decide_eq_false_iff_not] at hd
    have he : PExpr W a := h (nm, a) (List.mem_cons_self ..)
    have he := he c ρ ρ₂ l hu.1 ha
    have hes := pKwArgs_of W ok kws (fun x hx => h x (List.mem_cons_of_mem _ hx))
    obtain ⟨hk, ⟨hr, hl, hag, hf⟩⟩ := he
    simp only [rwKws, evalKws, evalList]
    rw [eval_pairTypeCall W ok]
    generalize hE : eval W a ρ l = o at hr hl hag
    generalize hE2 : eval W (rw a c).1 ρ₂ l = o2 at hr hl hag hf
    obtain ⟨r, ρ', l'⟩ := o
    obtain ⟨r2, ρ2', l2'⟩ := o2
    simp only at hr hl hag hf
    subst hr; subst hl
    have hrest := hes k (rw a c).2 ρ' (setVar ρ2' (.tmp k (.kw nm)) (match r2 with | .ok v => v | .error _ => .int 0)) l2' hu.2 hd.2
    cases r2 with
    | error ex =>
      dsimp only
      have hc2 := (hes k (rw a c).2 ρ' ρ2' l2' hu.2 hd.2 hag (by omega)).1
      refine ⟨by omega, ρ2', rfl, hag, ?_⟩
      intro j s hj
      exact hf j s (by omega)
    | ok v =>
      dsimp only at hrest ⊢
      have hag' : Agree ρ' (setVar ρ2' (.tmp k (.kw nm)) v) := hag.setTmp k (.kw nm) v
      obtain ⟨hc2, hmatch⟩ := hrest hag' (by omega)
      refine ⟨by omega, ?_⟩
      generalize hF : evalKws W kws ρ' l2' = p at hmatch
      obtain ⟨q, ρq, lq⟩ := p
      cases q with
      | error ex =>
        dsimp only at hmatch ⊢
        obtain ⟨ρ₂', hev, hag2, hfr⟩ := hmatch
        refine ⟨ρ₂', by rw [hev], hag2, ?_⟩
        intro j s hj
        rw [hfr j s (by omega)]
        have : Name.tmp j s ≠ Name.tmp k (.kw nm) := by
          intro e; injection e with e1 _; omega
        simp only [setVar, this, if_false]
        exact hf j s (by omega)
      | ok vs =>
        dsimp only at hmatch ⊢
        obtain ⟨ρ₂', hev, hag2, hfr, hother, hread⟩ := hmatch
        refine ⟨ρ₂', by rw [hev]; rfl, hag2, ?_, ?_, ?_⟩
        · intro j s hj
          rw [hfr j s (by omega)]
          have : Name.tmp j s ≠ Name.tmp k (.kw nm) := by
            intro e; injection e with e1 _; omega
          simp only [setVar, this, if_false]
          exact hf j s (by omega)
        · intro s hs
          rw [hother s (fun n hn => hs n (List.mem_cons_of_mem _ hn))]
          have : Name.tmp k s ≠ Name.tmp k (.kw nm) := by
            intro e; injection e with _ e2
            exact hs nm (List.mem_cons_self ..) e2
          simp only [setVar, this, if_false]
          exact hf k s (by omega)
        · intro l''
          have hhead : ρ₂' (.tmp k (.kw nm)) = some v := by
            rw [hother (.kw nm) (by intro n hn e; injection e with e; exact hd.1 (e ▸ hn))]
            simp [setVar]
          simp only [tmpKws, evalKws, eval, hhead, hread]

theorem evalList_append_err1 (W : World) : ∀ (xs ys : List Expr) (ρ ρ' : Env) (l l' : Log) (e : Exn),
    evalList W xs ρ l = (.error e, ρ', l') → evalList W (xs ++ ys) ρ l = (.error e, ρ', l')
  | [], _, _, _, _, _, _, h => by simp [evalList] at h
  | x :: xs, ys, ρ, ρ', l, l', e, h => by
    simp only [List.cons_append, evalList] at h ⊢
    generalize eval W x ρ l = o at h ⊢
    obtain ⟨r, ρ1, l1⟩ := o
    cases r with
    | error ex => exact h
    | ok v =>
      dsimp only at h ⊢
      generalize hE : evalList W xs ρ1 l1 = p at h
      obtain ⟨q, ρ2, l2⟩ := p
      cases q with
      | ok vs => simp at h
      | error ex =>
        rw [evalList_append_err1 W xs ys ρ1 ρ2 l1 l2 ex hE]
        exact h

theorem evalList_append_ok (W : World) : ∀ (xs ys : List Expr) (ρ ρ' : Env) (l l' : Log) (vs : List Val),
    evalList W xs ρ l = (.ok vs, ρ', l') →
      evalList W (xs ++ ys) ρ l =
        ((evalList W ys ρ' l').1.map (fun ws => vs ++ ws), (evalList W ys ρ' l').2)
  | [], ys, ρ, ρ', l, l', vs, h => by
    simp only [evalList, Prod.mk.injEq, Except.ok.injEq] at h
    obtain ⟨h1, h2, h3⟩ := h
    subst h1; subst h2; subst h3
    simp only [List.nil_append]
    generalize evalList W ys ρ l = o
    obtain ⟨r, ρ1, l1⟩ := o
    cases r <;> rfl
  | x :: xs, ys, ρ, ρ', l, l', vs, h => by
    simp only [List.cons_append, evalList] at h ⊢
    generalize eval W x ρ l = o at h ⊢
    obtain ⟨r, ρ1, l1⟩ := o
    cases r with
    | error ex => simp at h
    | ok v =>
      dsimp only at h ⊢
      generalize hE : evalList W xs ρ1 l1 = p at h
      obtain ⟨q, ρ2, l2⟩ := p
      cases q with
      | error ex => simp at h
      | ok ws =>
        simp only [Prod.mk.injEq, Except.ok.injEq] at h
        obtain ⟨h1, h2, h3⟩ := h
        subst h1; subst h2; subst h3
        rw [evalList_append_ok W xs ys ρ1 ρ2 l1 l2 ws hE]
        generalize evalList W ys ρ2 l2 = o
        obtain ⟨r, ρ3, l3⟩ := o
        cases r <;> rfl

theorem mapM_append_some {α β : Type} (f : α → Option β) : ∀ (xs ys : List α) (a b : List β),
    xs.mapM f = some a → ys.mapM f = some b → (xs ++ ys).mapM f = some (a ++ b)
  | [], ys, a, b, h1, h2 => by
    simp at h1; subst h1; simpa using h2
  | x :: xs, ys, a, b, h1, h2 => by
    simp only [List.mapM_cons, List.cons_append] at h1 ⊢
    cases hx : f x with
    | none => simp [hx] at h1
    | some y =>
      cases hxs : xs.mapM f with
      | none => simp [hx, hxs] at h1
      | some a' =>
        simp [hx, hxs] at h1
        subst h1
        simp [mapM_append_some f xs ys a' b hxs h2]

theorem mapM_toKeyElt_pos (W : World) : ∀ (avs : List Val),
    (avs.map (fun v => Val.ty (W.classOf v))).mapM toKeyElt = some (avs.map (fun v => KeyElt.pos (W.classOf v)))
  | [] => by simp
  | v :: vs => by simp [List.mapM_cons, toKeyElt, mapM_toKeyElt_pos W vs]

theorem mapM_toKeyElt_kw (W : World) : ∀ (kvs : List (String × Val)),
    (kvs.map (fun p => Val.kwTy p.1 (W.classOf p.2))).mapM toKeyElt = some (kvs.map (fun (n, v) => KeyElt.kw n (W.classOf v)))
  | [] => by simp
  | (n, v) :: vs => by simp [List.mapM_cons, toKeyElt, mapM_toKeyElt_kw W vs]

theorem mapM_toKeyElt (W : World) (hvs : List Val) (hks : List KeyElt) (h : hvs.mapM toKeyElt = some hks)
    (avs : List Val) (kvs : List (String × Val)) :
    (hvs ++ (avs.map (fun v => Val.ty (W.classOf v)) ++ kvs.map (fun p => Val.kwTy p.1 (W.classOf p.2)))).mapM toKeyElt
      = some (hks ++ keyOf W avs kvs) :=
  mapM_append_some _ _ _ _ _ h (mapM_append_some _ _ _ _ _ (mapM_toKeyElt_pos W avs) (mapM_toKeyElt_kw W kvs))

/-! ### small-step facts about `eval` on the shapes produced by the rewrite (stated with equations, no `match`) -/

theorem eval_tuple_err (W : World) (es : List Expr) (ρ ρ' : Env) (l l' : Log) (e : Exn)
    (h : evalList W es ρ l = (.error e, ρ', l')) : eval W (.tuple es) ρ l = (.error e, ρ', l') := by
  simp only [eval, h]
theorem eval_tuple_ok (W : World) (es : List Expr) (ρ ρ' : Env) (l l' : Log) (vs : List Val) (ks : List KeyElt)
    (h : evalList W es ρ l = (.ok vs, ρ', l')) (hk : vs.mapM toKeyElt = some ks) :
    eval W (.tuple es) ρ l = (.ok (.key ks), ρ', l') := by
  simp only [eval, h, hk]
theorem eval_mapsub_err (W : World) (ok : WOK W) (i : Expr) (ρ ρ' : Env) (l l' : Log) (e : Exn)
    (h : eval W i ρ l = (.error e, ρ', l')) : eval W (.subscript (.glob "MAP") i) ρ l = (.error e, ρ', l') := by
  simp only [eval, ok.map, h]
theorem eval_mapsub_miss (W : World) (ok : WOK W) (i : Expr) (ρ ρ' : Env) (l l' : Log) (ks : List KeyElt) (e : Exn)
    (h : eval W i ρ l = (.ok (.key ks), ρ', l')) (hL : W.lookup ks = .error e) :
    eval W (.subscript (.glob "MAP") i) ρ l = (.error e, ρ', l') := by
  simp only [eval, ok.map, h, hL]
theorem eval_mapsub_hit (W : World) (ok : WOK W) (i : Expr) (ρ ρ' : Env) (l l' : Log) (ks : List KeyElt) (hd : Nat)
    (h : eval W i ρ l = (.ok (.key ks), ρ', l')) (hL : W.lookup ks = .ok hd) :
    eval W (.subscript (.glob "MAP") i) ρ l = (.ok (.fn hd), ρ', l') := by
  simp only [eval, ok.map, h, hL]
theorem eval_call_errf (W : World) (f : Expr) (as : List Expr) (ks : List (String × Expr)) (ρ ρ' : Env) (l l' : Log) (e : Exn)
    (h : eval W f ρ l = (.error e, ρ', l')) : eval W (.call f as ks) ρ l = (.error e, ρ', l') := by
  simp only [eval, h]
theorem eval_call_erra (W : World) (f : Expr) (as : List Expr) (ks : List (String × Expr)) (ρ ρ1 ρ' : Env) (l l1 l' : Log)
    (fv : Val) (e : Exn)
    (h : eval W f ρ l = (.ok fv, ρ1, l1)) (ha : evalList W as ρ1 l1 = (.error e, ρ', l')) :
    eval W (.call f as ks) ρ l = (.error e, ρ', l') := by
  simp only [eval, h, ha]
theorem eval_call_errk (W : World) (f : Expr) (as : List Expr) (ks : List (String × Expr)) (ρ ρ1 ρ2 ρ' : Env) (l l1 l2 l' : Log)
    (fv : Val) (avs : List Val) (e : Exn)
    (h : eval W f ρ l = (.ok fv, ρ1, l1)) (ha : evalList W as ρ1 l1 = (.ok avs, ρ2, l2))
    (hk : evalKws W ks ρ2 l2 = (.error e, ρ', l')) :
    eval W (.call f as ks) ρ l = (.error e, ρ', l') := by
  simp only [eval, h, ha, hk]
theorem eval_call_ok (W : World) (f : Expr) (as : List Expr) (ks : List (String × Expr)) (ρ ρ1 ρ2 ρ3 : Env) (l l1 l2 l3 : Log)
    (fv : Val) (avs : List Val) (kvs : List (String × Val))
    (h : eval W f ρ l = (.ok fv, ρ1, l1)) (ha : evalList W as ρ1 l1 = (.ok avs, ρ2, l2))
    (hk : evalKws W ks ρ2 l2 = (.ok kvs, ρ3, l3)) :
    eval W (.call f as ks) ρ l = ((applyVal W fv avs kvs l3).1, ρ3, (applyVal W fv avs kvs l3).2) := by
  simp only [eval, h, ha, hk]
theorem eval_glob_ok (W : World) (g : String) (v : Val) (ρ : Env) (l : Log) (h : W.globals g = some v) :
    eval W (.glob g) ρ l = (.ok v, ρ, l) := by
  simp only [eval, h]

/-- a dispatcher: look `hks ++ key of the actual arguments` up in the table, apply the handler -/
def dispatchWith (W : World) (hks : List KeyElt) (avs : List Val) (kvs : List (String × Val)) (l : Log) : Except Exn Val × Log :=
  match W.lookup (hks ++ keyOf W avs kvs) with
  | .ok h => W.applyFn h avs kvs l
  | .error e => (.error e, l)

theorem applyVal_dispatchObj (W : World) (avs : List Val) (kvs : List (String × Val)) (l : Log) :
    applyVal W (.g .dispatchObj) avs kvs l = dispatchWith W [] avs kvs l := by
  simp only [applyVal, dispatchWith, List.nil_append]
  cases W.lookup (keyOf W avs kvs) <;> rfl
theorem applyVal_nextObj (W : World) (avs : List Val) (kvs : List (String × Val)) (l : Log) :
    applyVal W (.g .nextObj) avs kvs l = dispatchWith W [.code W.code] avs kvs l := by
  simp only [applyVal, dispatchWith, List.cons_append, List.nil_append]
  cases W.lookup (KeyElt.code W.code :: keyOf W avs kvs) <;> rfl

/-- the heart of C09: a dispatcher call `g(args, kws)` against `MAP[(hd..., type parts...)](temporaries...)`, where the
    key prefix expressions `hd` evaluate without effect to values whose key elements are the dispatcher's prefix -/
theorem sim_call (W : World) (ok : WOK W) (args : List Expr) (kws : List (String × Expr))
    (hA : PArgs W args) (hK : PKwArgs W kws)
    (g : String) (fv : Val) (hd : List Expr) (hvs : List Val) (hks : List KeyElt)
    (hglob : W.globals g = some fv)
    (happ : ∀ avs kvs l, applyVal W fv avs kvs l = dispatchWith W hks avs kvs l)
    (hhd : ∀ ρ l, evalList W hd ρ l = (.ok hvs, ρ, l)) (hkey : hvs.mapM toKeyElt = some hks)
    (k : Nat) (ρ ρ₂ : Env) (l : Log)
    (hua : userOnlyL args = true) (huk : userOnlyK kws = true) (hdn : distinctNames (kws.map Prod.fst) = true)
    (ha : Agree ρ ρ₂) :
    k ≤ (rwKws kws k (rwArgs args k 0 (k + 1)).2).2 ∧
    Sim k (rwKws kws k (rwArgs args k 0 (k + 1)).2).2 ρ₂
      (eval W (.call (.glob g) args kws) ρ l)
      (eval W (.call (.subscript (.glob "MAP") (.tuple (hd ++ ((rwArgs args k 0 (k + 1)).1 ++ (rwKws kws k (rwArgs args k 0 (k + 1)).2).1))))
                (tmpVars k 0 args) (tmpKws k kws)) ρ₂ l) := by
  obtain ⟨hc, hm⟩ := hA k 0 (k + 1) ρ ρ₂ l hua ha (Nat.lt_succ_self k)
  have hf0 := eval_glob_ok W g fv ρ l hglob
  generalize hE : evalList W args ρ l = o at hm
  obtain ⟨r, ρ', l'⟩ := o
  cases r with
  | error ex =>
    dsimp only at hm
    obtain ⟨ρ₂', hev, hag, hfr⟩ := hm
    have hc2 := (hK k (rwArgs args k 0 (k + 1)).2 ρ' ρ₂' l' huk hdn hag (by omega)).1
    refine ⟨by omega, ?_⟩
    have h1 : evalList W (hd ++ ((rwArgs args k 0 (k + 1)).1 ++ (rwKws kws k (rwArgs args k 0 (k + 1)).2).1)) ρ₂ l
        = (.error ex, ρ₂', l') := by
      rw [evalList_append_ok W _ _ _ _ _ _ _ (hhd ρ₂ l), evalList_append_err1 W _ _ _ _ _ _ _ hev]; rfl
    rw [eval_call_erra W _ _ _ _ _ _ _ _ _ _ _ hf0 hE,
      eval_call_errf W _ _ _ _ _ _ _ _ (eval_mapsub_err W ok _ _ _ _ _ _ (eval_tuple_err W _ _ _ _ _ _ h1))]
    exact ⟨rfl, rfl, hag, fun j s hj => hfr j s (by omega)⟩
  | ok avs =>
    dsimp only at hm
    obtain ⟨ρ₂', hev, hag, hfr, _, hslots, hlen⟩ := hm
    obtain ⟨hc2, hm2⟩ := hK k (rwArgs args k 0 (k + 1)).2 ρ' ρ₂' l' huk hdn hag (by omega)
    refine ⟨by omega, ?_⟩
    generalize hE2 : evalKws W kws ρ' l' = o2 at hm2
    obtain ⟨r2, ρ'', l''⟩ := o2
    cases r2 with
    | error ex =>
      dsimp only at hm2
      obtain ⟨ρ₂'', hev2, hag2, hfr2⟩ := hm2
      have h1 : evalList W (hd ++ ((rwArgs args k 0 (k + 1)).1 ++ (rwKws kws k (rwArgs args k 0 (k + 1)).2).1)) ρ₂ l
          = (.error ex, ρ₂'', l'') := by
        rw [evalList_append_ok W _ _ _ _ _ _ _ (hhd ρ₂ l), evalList_append_ok W _ _ _ _ _ _ _ hev, hev2]; rfl
      rw [eval_call_errk W _ _ _ _ _ _ _ _ _ _ _ _ _ _ hf0 hE hE2,
        eval_call_errf W _ _ _ _ _ _ _ _ (eval_mapsub_err W ok _ _ _ _ _ _ (eval_tuple_err W _ _ _ _ _ _ h1))]
      have hframe : Frame k (rwKws kws k (rwArgs args k 0 (k + 1)).2).2 ρ₂ ρ₂'' := by
        intro j s hj
        rw [hfr2 j s (by omega)]; exact hfr j s (by omega)
      exact ⟨rfl, rfl, hag2, hframe⟩
    | ok kvs =>
      dsimp only at hm2
      obtain ⟨ρ₂'', hev2, hag2, hfr2, hother2, hread2⟩ := hm2
      have hframe : Frame k (rwKws kws k (rwArgs args k 0 (k + 1)).2).2 ρ₂ ρ₂'' := by
        intro j s hj
        rw [hfr2 j s (by omega)]; exact hfr j s (by omega)
      have h1 : evalList W (hd ++ ((rwArgs args k 0 (k + 1)).1 ++ (rwKws kws k (rwArgs args k 0 (k + 1)).2).1)) ρ₂ l
          = (.ok (hvs ++ (avs.map (fun v => Val.ty (W.classOf v)) ++ kvs.map (fun p => Val.kwTy p.1 (W.classOf p.2)))), ρ₂'', l'') := by
        rw [evalList_append_ok W _ _ _ _ _ _ _ (hhd ρ₂ l), evalList_append_ok W _ _ _ _ _ _ _ hev, hev2]; rfl
      have h2 := eval_tuple_ok W _ _ _ _ _ _ _ h1 (mapM_toKeyElt W hvs hks hkey avs kvs)
      rw [eval_call_ok W _ _ _ _ _ _ _ _ _ _ _ _ _ _ hf0 hE hE2, happ]
      cases hL : W.lookup (hks ++ keyOf W avs kvs) with
      | error ex =>
        rw [eval_call_errf W _ _ _ _ _ _ _ _ (eval_mapsub_miss W ok _ _ _ _ _ _ _ h2 hL)]
        simp only [dispatchWith, hL]
        exact ⟨rfl, rfl, hag2, hframe⟩
      | ok h =>
        have hread := evalList_tmpVars W k ρ₂'' l'' args avs 0 hlen (by
          intro m hm
          rw [hother2 (.pos (0 + m)) (by intro n _ e; cases e)]
          exact hslots m hm)
        rw [eval_call_ok W _ _ _ _ _ _ _ _ _ _ _ _ _ _ (eval_mapsub_hit W ok _ _ _ _ _ _ _ h2 hL) hread (hread2 l'')]
        simp only [dispatchWith, hL, applyVal]
        exact ⟨rfl, rfl, hag2, hframe⟩

theorem rw_call_recurse (args : List Expr) (kws : List (String × Expr)) (k : Nat) :
    rw (.call (.glob "recurse") args kws) k =
      ((.call (.subscript (.glob "MAP") (.tuple ((rwArgs args k 0 (k + 1)).1 ++ (rwKws kws k (rwArgs args k 0 (k + 1)).2).1)))
          (tmpVars k 0 args) (tmpKws k kws)), (rwKws kws k (rwArgs args k 0 (k + 1)).2).2) := by
  simp only [rw]

theorem rw_call_next (args : List Expr) (kws : List (String × Expr)) (k : Nat) :
    rw (.call (.glob "call_next") args kws) k =
      ((.call (.subscript (.glob "MAP") (.tuple (.glob "CODE" :: ((rwArgs args k 0 (k + 1)).1 ++ (rwKws kws k (rwArgs args k 0 (k + 1)).2).1))))
          (tmpVars k 0 args) (tmpKws k kws)), (rwKws kws k (rwArgs args k 0 (k + 1)).2).2) := by
  simp only [rw]

theorem rw_call_general (f : Expr) (args : List Expr) (kws : List (String × Expr)) (k : Nat)
    (h1 : f ≠ .glob "recurse") (h2 : f ≠ .glob "call_next") :
    rw (.call f args kws) k =
      (.call (rw f k).1 (rwList args (rw f k).2).1 (rwKwList kws (rwList args (rw f k).2).2).1,
       (rwKwList kws (rwList args (rw f k).2).2).2) := by
  simp only [rw]

theorem sizeOf_mem_lt {es : List Expr} {e : Expr} (h : e ∈ es) : sizeOf e < sizeOf es := List.sizeOf_lt_of_mem h
theorem sizeOf_kw_mem_lt {es : List (String × Expr)} {p : String × Expr} (h : p ∈ es) : sizeOf p.2 < sizeOf es := by
  have := List.sizeOf_lt_of_mem h
  have h2 : sizeOf p.2 < sizeOf p := by cases p; simp; omega
  omega

/-- helper: sequencing two simulated steps -/
theorem Sim.seq_err {β : Type} {k k1 k2 : Nat} {ρ₂ ρ ρ' : Env} {l : Log} {ex : Exn}
    (hf : Frame k k1 ρ₂ ρ') (hag : Agree ρ ρ') (h12 : k1 ≤ k2) :
    Sim (α := β) k k2 ρ₂ (.error ex, ρ, l) (.error ex, ρ', l) :=
  ⟨rfl, rfl, hag, hf.widen (Nat.le_refl _) h12⟩

theorem pExpr (W : World) (ok : WOK W) : ∀ (n : Nat) (e : Expr), sizeOf e < n → PExpr W e := by
  intro n
  induction n with
  | zero => intro e h; omega
  | succ n ih =>
    intro e hsz
    cases e with
    | lit m => intro k ρ ρ₂ l _ ha; simp only [rw, eval]; exact ⟨Nat.le_refl _, ⟨rfl, rfl, ha, Frame.refl _ _ _⟩⟩
    | glob x =>
      intro k ρ ρ₂ l _ ha; simp only [rw, eval]
      cases W.globals x <;> exact ⟨Nat.le_refl _, ⟨rfl, rfl, ha, Frame.refl _ _ _⟩⟩
    | var x =>
      intro k ρ ρ₂ l hu ha
      cases x with
      | tmp j s => simp [userOnly] at hu
      | user s =>
        simp only [rw, eval, ha s]
        cases ρ (.user s) <;> exact ⟨Nat.le_refl _, ⟨rfl, rfl, ha, Frame.refl _ _ _⟩⟩
    | named x e1 =>
      intro k ρ ρ₂ l hu ha
      cases x with
      | tmp j s => simp [userOnly] at hu
      | user s =>
        simp only [userOnly] at hu
        have h1 := ih e1 (by simp at hsz; omega) k ρ ρ₂ l hu ha
        obtain ⟨hk, ⟨hr, hl, hag, hf⟩⟩ := h1
        simp only [rw, eval]
        generalize eval W e1 ρ l = o at hr hl hag
        generalize eval W (rw e1 k).1 ρ₂ l = o2 at hr hl hag hf
        obtain ⟨r, ρ', l'⟩ := o
        obtain ⟨r2, ρ2', l2'⟩ := o2
        simp only at hr hl hag hf
        subst hr; subst hl
        refine ⟨hk, ?_⟩
        cases r2 with
        | error ex => exact ⟨rfl, rfl, hag, hf⟩
        | ok v =>
          refine ⟨rfl, rfl, hag.setUser s v, ?_⟩
          intro j sl hj
          simp only [setVar]
          have : Name.tmp j sl ≠ Name.user s := by intro e; cases e
          simp only [this, if_false]; exact hf j sl hj
    | tick t e1 =>
      intro k ρ ρ₂ l hu ha
      simp only [userOnly] at hu
      have h1 := ih e1 (by simp at hsz; omega) k ρ ρ₂ l hu ha
      obtain ⟨hk, ⟨hr, hl, hag, hf⟩⟩ := h1
      simp only [rw, eval]
      generalize eval W e1 ρ l = o at hr hl hag
      generalize eval W (rw e1 k).1 ρ₂ l = o2 at hr hl hag hf
      obtain ⟨r, ρ', l'⟩ := o
      obtain ⟨r2, ρ2', l2'⟩ := o2
      simp only at hr hl hag hf
      subst hr; subst hl
      refine ⟨hk, ?_⟩
      cases r2 with
      | error ex => exact ⟨rfl, rfl, hag, hf⟩
      | ok v => exact ⟨rfl, rfl, hag, hf⟩
    | pair nm e1 =>
      intro k ρ ρ₂ l hu ha
      simp only [userOnly] at hu
      have h1 := ih e1 (by simp at hsz; omega) k ρ ρ₂ l hu ha
      obtain ⟨hk, ⟨hr, hl, hag, hf⟩⟩ := h1
      simp only [rw, eval]
      generalize eval W e1 ρ l = o at hr hl hag
      generalize eval W (rw e1 k).1 ρ₂ l = o2 at hr hl hag hf
      obtain ⟨r, ρ', l'⟩ := o
      obtain ⟨r2, ρ2', l2'⟩ := o2
      simp only at hr hl hag hf
      subst hr; subst hl
      refine ⟨hk, ?_⟩
      cases r2 with
      | error ex => exact ⟨rfl, rfl, hag, hf⟩
      | ok v => cases v <;> exact ⟨rfl, rfl, hag, hf⟩
    | add a b =>
      intro k ρ ρ₂ l hu ha
      simp only [userOnly, Bool.and_eq_true] at hu
      have h1 := ih a (by simp at hsz; omega) k ρ ρ₂ l hu.1 ha
      obtain ⟨hk, ⟨hr, hl, hag, hf⟩⟩ := h1
      simp only [rw, eval]
      generalize eval W a ρ l = o at hr hl hag
      generalize eval W (rw a k).1 ρ₂ l = o2 at hr hl hag hf
      obtain ⟨r, ρ', l'⟩ := o
      obtain ⟨r2, ρ2', l2'⟩ := o2
      simp only at hr hl hag hf
      subst hr; subst hl
      have h2 := ih b (by simp at hsz; omega) (rw a k).2 ρ' ρ2' l2' hu.2 hag
      obtain ⟨hk2, ⟨hr2, hl2, hag2, hf2⟩⟩ := h2
      refine ⟨by omega, ?_⟩
      cases r2 with
      | error ex => exact ⟨rfl, rfl, hag, hf.widen (Nat.le_refl _) hk2⟩
      | ok v =>
        cases v with
        | int x =>
          dsimp only
          generalize eval W b ρ' l2' = p at hr2 hl2 hag2
          generalize eval W (rw b (rw a k).2).1 ρ2' l2' = p2 at hr2 hl2 hag2 hf2
          obtain ⟨q, ρq, lq⟩ := p
          obtain ⟨q2, ρq2, lq2⟩ := p2
          simp only at hr2 hl2 hag2 hf2
          subst hr2; subst hl2
          cases q2 with
          | error ex => exact ⟨rfl, rfl, hag2, hf.trans hf2 hk hk2⟩
          | ok w => cases w <;> exact ⟨rfl, rfl, hag2, hf.trans hf2 hk hk2⟩
        | _ => exact ⟨rfl, rfl, hag, hf.widen (Nat.le_refl _) hk2⟩
    | ite c a b =>
      intro k ρ ρ₂ l hu ha
      simp only [userOnly, Bool.and_eq_true] at hu
      have h1 := ih c (by simp at hsz; omega) k ρ ρ₂ l hu.1.1 ha
      obtain ⟨hk, ⟨hr, hl, hag, hf⟩⟩ := h1
      simp only [rw, eval]
      generalize eval W c ρ l = o at hr hl hag
      generalize eval W (rw c k).1 ρ₂ l = o2 at hr hl hag hf
      obtain ⟨r, ρ', l'⟩ := o
      obtain ⟨r2, ρ2', l2'⟩ := o2
      simp only at hr hl hag hf
      subst hr; subst hl
      have h2 := ih a (by simp at hsz; omega) (rw c k).2 ρ' ρ2' l2' hu.1.2 hag
      have hk2 := h2.1
      have h3k : (rw a (rw c k).2).2 ≤ (rw b (rw a (rw c k).2).2).2 := by
        have := (ih b (by simp at hsz; omega) (rw a (rw c k).2).2 ρ' ρ2' l2' hu.2 hag).1; exact this
      refine ⟨by omega, ?_⟩
      -- the untaken branch still advances the counter: its temporaries are simply never assigned
      have branchA : Sim k (rw b (rw a (rw c k).2).2).2 ρ₂ (eval W a ρ' l2') (eval W (rw a (rw c k).2).1 ρ2' l2') := by
        obtain ⟨_, ⟨hr2, hl2, hag2, hf2⟩⟩ := h2
        exact ⟨hr2, hl2, hag2, (hf.trans hf2 hk hk2).widen (Nat.le_refl _) h3k⟩
      have branchB : Sim k (rw b (rw a (rw c k).2).2).2 ρ₂ (eval W b ρ' l2') (eval W (rw b (rw a (rw c k).2).2).1 ρ2' l2') := by
        obtain ⟨_, ⟨hr3, hl3, hag3, hf3⟩⟩ := ih b (by simp at hsz; omega) (rw a (rw c k).2).2 ρ' ρ2' l2' hu.2 hag
        refine ⟨hr3, hl3, hag3, ?_⟩
        intro j s hj
        rw [hf3 j s (by omega)]
        exact hf j s (by omega)
      cases r2 with
      | error ex => exact ⟨rfl, rfl, hag, hf.widen (Nat.le_refl _) (by omega)⟩
      | ok v =>
        cases v with
        | int x =>
          by_cases hx : x = 0
          · subst hx; exact branchB
          · split
            · rename_i h; injection h with h _; injection h with h; injection h with h; exact absurd h hx
            · rename_i h; injection h with h1 h2; injection h2 with h2 h3; subst h2; subst h3
              split
              · rename_i h; injection h with h _; injection h with h; injection h with h; exact absurd h hx
              · rename_i h; injection h with h1 h2; injection h2 with h2 h3; subst h2; subst h3; exact branchA
              · rename_i h1 h2; exact absurd rfl (h2 _ _ _)
            · rename_i h1 h2; exact absurd rfl (h2 _ _ _)
        | _ => exact branchA
    | subscript a b =>
      intro k ρ ρ₂ l hu ha
      simp only [userOnly, Bool.and_eq_true] at hu
      have h1 := ih a (by simp at hsz; omega) k ρ ρ₂ l hu.1 ha
      obtain ⟨hk, ⟨hr, hl, hag, hf⟩⟩ := h1
      simp only [rw, eval]
      generalize eval W a ρ l = o at hr hl hag
      generalize eval W (rw a k).1 ρ₂ l = o2 at hr hl hag hf
      obtain ⟨r, ρ', l'⟩ := o
      obtain ⟨r2, ρ2', l2'⟩ := o2
      simp only at hr hl hag hf
      subst hr; subst hl
      have h2 := ih b (by simp at hsz; omega) (rw a k).2 ρ' ρ2' l2' hu.2 hag
      obtain ⟨hk2, ⟨hr2, hl2, hag2, hf2⟩⟩ := h2
      refine ⟨by omega, ?_⟩
      cases r2 with
      | error ex => exact ⟨rfl, rfl, hag, hf.widen (Nat.le_refl _) hk2⟩
      | ok v =>
        dsimp only
        generalize eval W b ρ' l2' = p at hr2 hl2 hag2
        generalize eval W (rw b (rw a k).2).1 ρ2' l2' = p2 at hr2 hl2 hag2 hf2
        obtain ⟨q, ρq, lq⟩ := p
        obtain ⟨q2, ρq2, lq2⟩ := p2
        simp only at hr2 hl2 hag2 hf2
        subst hr2; subst hl2
        cases q2 with
        | error ex => exact ⟨rfl, rfl, hag2, hf.trans hf2 hk hk2⟩
        | ok w =>
          dsimp only
          split
          · split <;> exact ⟨rfl, rfl, hag2, hf.trans hf2 hk hk2⟩
          · exact ⟨rfl, rfl, hag2, hf.trans hf2 hk hk2⟩
    | tuple es =>
      intro k ρ ρ₂ l hu ha
      simp only [userOnly] at hu
      have hl := pList_of W es (fun e he => ih e (by have := sizeOf_mem_lt he; simp at hsz; omega))
      obtain ⟨hk, ⟨hr, hlg, hag, hf⟩⟩ := hl k ρ ρ₂ l hu ha
      simp only [rw, eval]
      generalize evalList W es ρ l = o at hr hlg hag
      generalize evalList W (rwList es k).1 ρ₂ l = o2 at hr hlg hag hf
      obtain ⟨r, ρ', l'⟩ := o
      obtain ⟨r2, ρ2', l2'⟩ := o2
      simp only at hr hlg hag hf
      subst hr; subst hlg
      refine ⟨hk, ?_⟩
      cases r2 with
      | error ex => exact ⟨rfl, rfl, hag, hf⟩
      | ok vs => dsimp only; cases vs.mapM toKeyElt <;> exact ⟨rfl, rfl, hag, hf⟩
    | call f args kws =>
      intro k ρ ρ₂ l hu ha
      simp only [userOnly, Bool.and_eq_true] at hu
      have ihA : ∀ e ∈ args, PExpr W e := fun e he => ih e (by have := sizeOf_mem_lt he; simp at hsz; omega)
      have ihK : ∀ p ∈ kws, PExpr W p.2 := fun p hp => ih p.2 (by have := sizeOf_kw_mem_lt hp; simp at hsz; omega)
      by_cases hrec : f = .glob "recurse"
      · -- the rewritten call:  MAP[(type(t0 := a0'), …, ('n', type(tn := e')), …)](t0, …, n=tn, …)
        subst hrec
        rw [rw_call_recurse]
        exact sim_call W ok args kws (pArgs_of W ok args ihA) (pKwArgs_of W ok kws ihK) "recurse" (.g .dispatchObj) [] [] []
          ok.recurse (applyVal_dispatchObj W) (fun _ _ => rfl) rfl k ρ ρ₂ l hu.1.1.2 hu.1.2 hu.2 ha
      by_cases hnext : f = .glob "call_next"
      · -- the rewritten call:  MAP[(CODE, type(t0 := a0'), …)](t0, …)
        subst hnext
        rw [rw_call_next]
        exact sim_call W ok args kws (pArgs_of W ok args ihA) (pKwArgs_of W ok kws ihK) "call_next" (.g .nextObj)
          [.glob "CODE"] [.g (.codeObj W.code)] [.code W.code]
          ok.callNext (applyVal_nextObj W) (fun _ _ => by simp only [evalList, eval, ok.code]) rfl k ρ ρ₂ l hu.1.1.2 hu.1.2 hu.2 ha
      · rw [rw_call_general f args kws k hrec hnext]
        have h1 := ih f (by simp at hsz; omega) k ρ ρ₂ l hu.1.1.1 ha
        obtain ⟨hk, ⟨hr, hl, hag, hf⟩⟩ := h1
        simp only [eval]
        generalize eval W f ρ l = o at hr hl hag
        generalize eval W (rw f k).1 ρ₂ l = o2 at hr hl hag hf
        obtain ⟨r, ρ1, l1⟩ := o
        obtain ⟨r2, ρ1', l1'⟩ := o2
        simp only at hr hl hag hf
        subst hr; subst hl
        obtain ⟨hk2, ⟨hr2, hl2, hag2, hf2⟩⟩ := pList_of W args ihA (rw f k).2 ρ1 ρ1' l1' hu.1.1.2 hag
        have hk3 := (pKws_of W kws ihK (rwList args (rw f k).2).2 ρ1 ρ1' l1' hu.1.2 hag).1
        refine ⟨by omega, ?_⟩
        cases r2 with
        | error ex => exact ⟨rfl, rfl, hag, hf.widen (Nat.le_refl _) (by omega)⟩
        | ok fv =>
          dsimp only
          generalize evalList W args ρ1 l1' = p at hr2 hl2 hag2
          generalize evalList W (rwList args (rw f k).2).1 ρ1' l1' = p2 at hr2 hl2 hag2 hf2
          obtain ⟨q, ρq, lq⟩ := p
          obtain ⟨q2, ρq2, lq2⟩ := p2
          simp only at hr2 hl2 hag2 hf2
          subst hr2; subst hl2
          obtain ⟨hk4, ⟨hr3, hl3, hag3, hf3⟩⟩ := pKws_of W kws ihK (rwList args (rw f k).2).2 ρq ρq2 lq2 hu.1.2 hag2
          cases q2 with
          | error ex => exact ⟨rfl, rfl, hag2, (hf.trans hf2 hk hk2).widen (Nat.le_refl _) hk4⟩
          | ok avs =>
            dsimp only
            generalize evalKws W kws ρq lq2 = p3 at hr3 hl3 hag3
            generalize evalKws W (rwKwList kws (rwList args (rw f k).2).2).1 ρq2 lq2 = p4 at hr3 hl3 hag3 hf3
            obtain ⟨q3, ρq3, lq3⟩ := p3
            obtain ⟨q4, ρq4, lq4⟩ := p4
            simp only at hr3 hl3 hag3 hf3
            subst hr3; subst hl3
            cases q4 with
            | error ex => exact ⟨rfl, rfl, hag3, (hf.trans hf2 hk hk2).trans hf3 (by omega) hk4⟩
            | ok kvs => exact ⟨rfl, rfl, hag3, (hf.trans hf2 hk hk2).trans hf3 (by omega) hk4⟩


/-- C09: for every well-formed expression written without the reserved temporaries, the rewritten expression
    evaluates to the same result / exception with the same sequence of side effects, and leaves the user's
    variables identical. -/
theorem C09_rewrite_preserves (W : World) (ok : WOK W) (e : Expr) (ρ : Env) (l : Log) (hu : userOnly e = true) :
    (eval W (rw e 0).1 ρ l).1 = (eval W e ρ l).1 ∧ (eval W (rw e 0).1 ρ l).2.2 = (eval W e ρ l).2.2
      ∧ Agree (eval W e ρ l).2.1 (eval W (rw e 0).1 ρ l).2.1 := by
  have h := (pExpr W ok (sizeOf e + 1) e (Nat.lt_succ_self _) 0 ρ ρ l hu (fun _ => rfl)).2
  exact ⟨h.res, h.log, h.agree⟩


/-! ### arguments are evaluated exactly once, in source order, before the lookup -/

/-- positional arguments `tick t₁ n₁, tick t₂ n₂, …` (each logs its tag when evaluated) -/
def tickArgs (ts : List (String × Int)) : List Expr := ts.map (fun p => .tick p.1 (.lit p.2))
/-- keyword arguments `name₁ = tick t₁ n₁, …` -/
def tickKws (ks : List (String × String × Int)) : List (String × Expr) := ks.map (fun p => (p.1, .tick p.2.1 (.lit p.2.2)))

theorem evalList_tickArgs (W : World) : ∀ (ts : List (String × Int)) (ρ : Env) (l : Log),
    evalList W (tickArgs ts) ρ l = (.ok (ts.map (fun p => Val.int p.2)), ρ, l ++ ts.map (fun p => p.1))
  | [], ρ, l => by simp [tickArgs, evalList]
  | p :: ts, ρ, l => by
    have ih := evalList_tickArgs W ts ρ (l ++ [p.1])
    simp only [tickArgs] at ih
    simp [tickArgs, evalList, eval, ih]

theorem evalKws_tickKws (W : World) : ∀ (ks : List (String × String × Int)) (ρ : Env) (l : Log),
    evalKws W (tickKws ks) ρ l = (.ok (ks.map (fun p => (p.1, Val.int p.2.2))), ρ, l ++ ks.map (fun p => p.2.1))
  | [], ρ, l => by simp [tickKws, evalKws]
  | p :: ks, ρ, l => by
    have ih := evalKws_tickKws W ks ρ (l ++ [p.2.1])
    simp only [tickKws] at ih
    simp [tickKws, evalKws, eval, ih]

theorem userOnlyL_tickArgs : ∀ (ts : List (String × Int)), userOnlyL (tickArgs ts) = true
  | [] => rfl
  | p :: ts => by
    have ih := userOnlyL_tickArgs ts
    simp only [tickArgs] at ih
    simp [tickArgs, userOnlyL, userOnly, ih]
theorem userOnlyK_tickKws : ∀ (ks : List (String × String × Int)), userOnlyK (tickKws ks) = true
  | [] => rfl
  | p :: ks => by
    have ih := userOnlyK_tickKws ks
    simp only [tickKws] at ih
    simp [tickKws, userOnlyK, userOnly, ih]

theorem args_once_in_order_aux (W : World) (ok : WOK W) (g : String) (fv : Val) (hg : W.globals g = some fv)
    (ts : List (String × Int)) (ks : List (String × String × Int))
    (hd : distinctNames (ks.map (fun p => p.1)) = true) (ρ : Env) (l : Log) :
    (eval W (rw (.call (.glob g) (tickArgs ts) (tickKws ks)) 0).1 ρ l).1
        = (applyVal W fv (ts.map (fun p => Val.int p.2)) (ks.map (fun p => (p.1, Val.int p.2.2)))
            (l ++ ts.map (fun p => p.1) ++ ks.map (fun p => p.2.1))).1
    ∧ (eval W (rw (.call (.glob g) (tickArgs ts) (tickKws ks)) 0).1 ρ l).2.2
        = (applyVal W fv (ts.map (fun p => Val.int p.2)) (ks.map (fun p => (p.1, Val.int p.2.2)))
            (l ++ ts.map (fun p => p.1) ++ ks.map (fun p => p.2.1))).2 := by
  have hu : userOnly (.call (.glob g) (tickArgs ts) (tickKws ks)) = true := by
    have e : (tickKws ks).map Prod.fst = ks.map (fun p => p.1) := by simp [tickKws, List.map_map, Function.comp_def]
    simp [userOnly, userOnlyL_tickArgs, userOnlyK_tickKws, e, hd]
  obtain ⟨h1, h2, _⟩ := C09_rewrite_preserves W ok _ ρ l hu
  rw [h1, h2, eval_call_ok W _ _ _ _ _ _ _ _ _ _ _ _ _ _ (eval_glob_ok W g fv ρ l hg) (evalList_tickArgs W ts ρ l)
    (evalKws_tickKws W ks ρ _)]
  exact ⟨rfl, rfl⟩

/-- C09, order and multiplicity: in the rewritten `recurse(tick t₁ n₁, …, name = tick t n, …)` every argument is
    evaluated exactly once, positional arguments first, each group in source order, and all of them before the
    dispatch: the dispatcher runs on the argument values with the log `l ++ positional tags ++ keyword tags`. -/
theorem C09_args_once_in_order (W : World) (ok : WOK W) (ts : List (String × Int)) (ks : List (String × String × Int))
    (hd : distinctNames (ks.map (fun p => p.1)) = true) (ρ : Env) (l : Log) :
    (eval W (rw (.call (.glob "recurse") (tickArgs ts) (tickKws ks)) 0).1 ρ l).1
        = (applyVal W (.g .dispatchObj) (ts.map (fun p => Val.int p.2)) (ks.map (fun p => (p.1, Val.int p.2.2)))
            (l ++ ts.map (fun p => p.1) ++ ks.map (fun p => p.2.1))).1
    ∧ (eval W (rw (.call (.glob "recurse") (tickArgs ts) (tickKws ks)) 0).1 ρ l).2.2
        = (applyVal W (.g .dispatchObj) (ts.map (fun p => Val.int p.2)) (ks.map (fun p => (p.1, Val.int p.2.2)))
            (l ++ ts.map (fun p => p.1) ++ ks.map (fun p => p.2.1))).2 :=
  args_once_in_order_aux W ok "recurse" _ ok.recurse ts ks hd ρ l

/-- the same for `call_next(…)` -/
theorem C09_args_once_in_order_next (W : World) (ok : WOK W) (ts : List (String × Int)) (ks : List (String × String × Int))
    (hd : distinctNames (ks.map (fun p => p.1)) = true) (ρ : Env) (l : Log) :
    (eval W (rw (.call (.glob "call_next") (tickArgs ts) (tickKws ks)) 0).1 ρ l).1
        = (applyVal W (.g .nextObj) (ts.map (fun p => Val.int p.2)) (ks.map (fun p => (p.1, Val.int p.2.2)))
            (l ++ ts.map (fun p => p.1) ++ ks.map (fun p => p.2.1))).1
    ∧ (eval W (rw (.call (.glob "call_next") (tickArgs ts) (tickKws ks)) 0).1 ρ l).2.2
        = (applyVal W (.g .nextObj) (ts.map (fun p => Val.int p.2)) (ks.map (fun p => (p.1, Val.int p.2.2)))
            (l ++ ts.map (fun p => p.1) ++ ks.map (fun p => p.2.1))).2 :=
  args_once_in_order_aux W ok "call_next" _ ok.callNext ts ks hd ρ l

/-! ### `rw` leaves everything else alone -/

theorem rwList_id : ∀ (es : List Expr), (∀ e ∈ es, noRecCall e = true → ∀ k, rw e k = (e, k)) → noRecCallL es = true →
    ∀ k, rwList es k = (es, k)
  | [], _, _, k => by simp only [rwList]
  | e :: es, h, hn, k => by
    simp only [noRecCallL, Bool.and_eq_true] at hn
    simp only [rwList, h e (List.mem_cons_self ..) hn.1, rwList_id es (fun x hx => h x (List.mem_cons_of_mem _ hx)) hn.2]

theorem rwKwList_id : ∀ (es : List (String × Expr)), (∀ p ∈ es, noRecCall p.2 = true → ∀ k, rw p.2 k = (p.2, k)) →
    noRecCallK es = true → ∀ k, rwKwList es k = (es, k)
  | [], _, _, k => by simp only [rwKwList]
  | (n, e) :: es, h, hn, k => by
    simp only [noRecCallK, Bool.and_eq_true] at hn
    have he : ∀ k, rw e k = (e, k) := h (n, e) (List.mem_cons_self ..) hn.1
    simp only [rwKwList, he, rwKwList_id es (fun x hx => h x (List.mem_cons_of_mem _ hx)) hn.2]

theorem rw_id_aux : ∀ (n : Nat) (e : Expr), sizeOf e < n → noRecCall e = true → ∀ k, rw e k = (e, k) := by
  intro n
  induction n with
  | zero => intro e h; omega
  | succ n ih =>
    intro e hsz hn k
    cases e with
    | lit m => simp only [rw]
    | glob x => simp only [rw]
    | var x => simp only [rw]
    | named x e1 =>
      simp only [noRecCall] at hn
      simp only [rw, ih e1 (by simp at hsz; omega) hn]
    | tick t e1 =>
      simp only [noRecCall] at hn
      simp only [rw, ih e1 (by simp at hsz; omega) hn]
    | pair nm e1 =>
      simp only [noRecCall] at hn
      simp only [rw, ih e1 (by simp at hsz; omega) hn]
    | add a b =>
      simp only [noRecCall, Bool.and_eq_true] at hn
      simp only [rw, ih a (by simp at hsz; omega) hn.1, ih b (by simp at hsz; omega) hn.2]
    | subscript a b =>
      simp only [noRecCall, Bool.and_eq_true] at hn
      simp only [rw, ih a (by simp at hsz; omega) hn.1, ih b (by simp at hsz; omega) hn.2]
    | ite c a b =>
      simp only [noRecCall, Bool.and_eq_true] at hn
      simp only [rw, ih c (by simp at hsz; omega) hn.1.1, ih a (by simp at hsz; omega) hn.1.2, ih b (by simp at hsz; omega) hn.2]
    | tuple es =>
      simp only [noRecCall] at hn
      simp only [rw, rwList_id es (fun e he => ih e (by have := sizeOf_mem_lt he; simp at hsz; omega)) hn]
    | call f args kws =>
      simp only [noRecCall, Bool.and_eq_true, Bool.not_eq_true'] at hn
      have h1 : f ≠ .glob "recurse" := by intro e; subst e; simp [isRecName] at hn
      have h2 : f ≠ .glob "call_next" := by intro e; subst e; simp [isRecName] at hn
      rw [rw_call_general f args kws k h1 h2, ih f (by simp at hsz; omega) hn.1.1.2,
        rwList_id args (fun e he => ih e (by have := sizeOf_mem_lt he; simp at hsz; omega)) hn.1.2,
        rwKwList_id kws (fun p hp => ih p.2 (by have := sizeOf_kw_mem_lt hp; simp at hsz; omega)) hn.2]

/-- an expression that contains no call of the globals `recurse` / `call_next` is returned unchanged (and consumes
    no temporary prefix) -/
theorem rw_id (e : Expr) (h : noRecCall e = true) (k : Nat) : (rw e k).1 = e := by
  rw [rw_id_aux (sizeOf e + 1) e (Nat.lt_succ_self _) h k]
theorem rw_id_counter (e : Expr) (h : noRecCall e = true) (k : Nat) : (rw e k).2 = k := by
  rw [rw_id_aux (sizeOf e + 1) e (Nat.lt_succ_self _) h k]

/-! ### a concrete run: nested calls, keywords, `call_next`

`recurse(tick a (x), call_next(tick b (1), u = tick c (2)), p = tick d (1), q = recurse(z = tick e (0)))` -/
namespace Example
def W0 : World where
  globals := fun s =>
    if s = "recurse" then some (.g .dispatchObj) else if s = "call_next" then some (.g .nextObj)
    else if s = "MAP" then some (.g .mapObj) else if s = "type" then some (.g .typeFn)
    else if s = "CODE" then some (.g (.codeObj 3)) else none
  classOf := fun v => match v with | .int _ => 1 | _ => 0
  lookup := fun ks => if ks.length = 1 then .ok 7 else if ks.length = 2 then .ok 8 else .ok 9
  code := 3
  applyFn := fun h args kws l => (.ok (.int (h + args.length + 10 * kws.length)), l ++ [s!"enter{h}"])
def e0 : Expr :=
  .call (.glob "recurse")
    [.tick "a" (.var (.user "x")), .call (.glob "call_next") [.tick "b" (.lit 1)] [("u", .tick "c" (.lit 2))]]
    [("p", .tick "d" (.lit 1)), ("q", .call (.glob "recurse") [] [("z", .tick "e" (.lit 0))])]
def ρ0 : Env := fun n => if n = .user "x" then some (.int 5) else none

theorem W0_ok : WOK W0 := ⟨rfl, rfl, rfl, rfl, rfl⟩

/-- the temporaries: prefix 0 for the outer call, 1 for `call_next(…)` (visited among the positional arguments), 2 for
    the `recurse(…)` in the keyword value -/
example : rw e0 0 =
    (.call (.subscript (.glob "MAP") (.tuple
        [typeCall (.tmp 0 (.pos 0)) (.tick "a" (.var (.user "x"))),
         typeCall (.tmp 0 (.pos 1))
           (.call (.subscript (.glob "MAP") (.tuple
               [.glob "CODE", typeCall (.tmp 1 (.pos 0)) (.tick "b" (.lit 1)),
                .pair "u" (typeCall (.tmp 1 (.kw "u")) (.tick "c" (.lit 2)))]))
             [.var (.tmp 1 (.pos 0))] [("u", .var (.tmp 1 (.kw "u")))]),
         .pair "p" (typeCall (.tmp 0 (.kw "p")) (.tick "d" (.lit 1))),
         .pair "q" (typeCall (.tmp 0 (.kw "q"))
           (.call (.subscript (.glob "MAP") (.tuple [.pair "z" (typeCall (.tmp 2 (.kw "z")) (.tick "e" (.lit 0)))]))
             [] [("z", .var (.tmp 2 (.kw "z")))]))]))
      [.var (.tmp 0 (.pos 0)), .var (.tmp 0 (.pos 1))]
      [("p", .var (.tmp 0 (.kw "p"))), ("q", .var (.tmp 0 (.kw "q")))], 3) := by rfl

example : (eval W0 e0 ρ0 []).2.2 = ["a", "b", "c", "enter9", "d", "e", "enter7", "enter9"] := by decide
example : (eval W0 (rw e0 0).1 ρ0 []).2.2 = ["a", "b", "c", "enter9", "d", "e", "enter7", "enter9"] := by decide
example : (eval W0 (rw e0 0).1 ρ0 []).1 = .ok (.int 31) ∧ (eval W0 e0 ρ0 []).1 = .ok (.int 31) := ⟨rfl, rfl⟩
example : (eval W0 (rw e0 0).1 ρ0 []).2.1 (.user "x") = some (.int 5) := by decide
end Example

end Ovld.Rw
