import Ovldverif.Spec.Resolve
/-! Hypothesis of C07's `call_next` theorem: the current method and everything ranked above it are strictly
ordered against every other applicable method (no tied rank at or above the current one: finding D18). -/
set_option autoImplicit false
namespace Ovld

def strictAbove (H : Hier) (ms : List Meth) (k : Key) (cur : Meth) : Bool :=
  (applicable H ms k).all (fun m =>
    !(m.id == cur.id || beats H k m cur) ||
    (applicable H ms k).all (fun m' => m'.id == m.id || beats H k m m' || beats H k m' m))

/-- all method ids mentioned by a dict entry (a handler, or a dependent dispatcher with its fall-through chain;
    a chain that ends in a tied rank mentions the ids of that rank's ambiguity) -/
def Entry.handlers : Entry → List Nat
  | .meth id => [id]
  | .dep hs next => hs ++ next.handlers
  | .noNext => []
  | .ambNext ids => ids

end Ovld
