/-!
# Layer C (1/2): `graphlib.TopologicalSorter` batching as `mro.sort_types` uses it

`get_ready()` yields every node all of whose predecessors are done; `sort_types` marks the whole
batch done before asking again.  A cycle makes `prepare()` raise before anything is yielded; in the
model that is "the batches do not cover the nodes".
-/
set_option autoImplicit false
namespace Ovld
variable {α : Type} [DecidableEq α]

def ready (pred : α → List α) (rem done : List α) : List α :=
  rem.filter (fun v => (pred v).all (fun u => u ∈ done))

def batches (pred : α → List α) : Nat → List α → List α → List (List α)
  | 0, _, _ => []
  | f + 1, rem, done =>
    let r := ready pred rem done
    if r = [] then [] else r :: batches pred f (rem.filter (fun v => v ∉ r)) (done ++ r)

/-- index of the batch containing v, counted from `start` -/
def batchIdx (v : α) : List (List α) → Nat → Option Nat
  | [], _ => none
  | b :: bs, i => if v ∈ b then some i else batchIdx v bs (i + 1)

end Ovld
