import Ovldverif.Lemmas.GraphRel
/-!
# Specifications of `lock`, `lockUnlinked`, `compile` and `update` on ranked (acyclic) graphs
-/
set_option autoImplicit false
namespace Ovld

/-- (I2) a locked function has only locked mixins (hence only locked ancestors) -/
def LockClosed (mx : Nat → List Nat) (lk : Nat → Bool) : Prop :=
  ∀ x, lk x = true → ∀ m ∈ mx x, lk m = true

theorem LockClosed.anc {mx : Nat → List Nat} {lk : Nat → Bool} (h : LockClosed mx lk) {a n : Nat}
    (hn : lk n = true) (ha : Anc mx a n) : lk a = true := by
  induction ha with
  | direct hm => exact h _ hn _ hm
  | step hm _ ih => exact ih (h _ hn _ hm)

/-- what `_lock_unlinked_ancestors` establishes for `c`: every mixin edge into a node with a linked path down
    to `c` is linked back or leads to a locked function -/
def Fixed (mx ch : Nat → List Nat) (lk : Nat → Bool) (c : Nat) : Prop :=
  ∀ x, LPath ch x c → ∀ m ∈ mx x, lk m = true ∨ x ∈ ch m

theorem Fixed.frame {g g' : Graph} (h : Frame g g') {c : Nat} (hf : Fixed g.mx g.ch g.lk c) :
    Fixed g'.mx g'.ch g'.lk c := by
  rw [h.shape.mx, h.shape.ch]
  intro x hx m hm
  rcases hf x hx m hm with h1 | h1
  · exact Or.inl (h.mono _ h1)
  · exact Or.inr h1

theorem Ranked.frame {g g' : Graph} (h : Shape g g') {rk : Nat → Nat} (hr : Ranked g.len g.mx rk) :
    Ranked g'.len g'.mx rk := by rw [h.len, h.mx]; exact hr

theorem Mirror.frame {g g' : Graph} (h : Shape g g') (hr : Mirror g.len g.mx g.ch) :
    Mirror g'.len g'.mx g'.ch := by rw [h.len, h.mx, h.ch]; exact hr

/-! ## `lock` -/

theorem Graph.lk_set_locked (g : Graph) (n : Nat) (hn : n < g.len) (x : Nat) :
    (g.set n { g.get n with locked := true }).lk x = true ↔ (g.lk x = true ∨ x = n) := by
  show ((g.set n _).get x).locked = true ↔ _
  rw [Graph.get_set]
  by_cases hx : x = n
  · subst hx; simp [show x < g.nodes.length from hn]
  · simp [hx, Graph.lk]

theorem Graph.lock_fold_lk (rk : Nat → Nat) (f : Nat)
    (ih : ∀ (g : Graph) (n : Nat), Ranked g.len g.mx rk → n < g.len → rk n < f →
      ∀ x, (Graph.lock f g n).lk x = true ↔ (g.lk x = true ∨ x = n ∨ Anc g.mx x n)) :
    ∀ (ms : List Nat) (g : Graph), Ranked g.len g.mx rk → (∀ m ∈ ms, m < g.len ∧ rk m < f) →
      ∀ x, (ms.foldl (fun g m => Graph.lock f g m) g).lk x = true ↔
        (g.lk x = true ∨ ∃ m ∈ ms, x = m ∨ Anc g.mx x m) := by
  intro ms
  induction ms with
  | nil => intro g _ _ x; simp
  | cons m ms ihm =>
    intro g hr hms x
    simp only [List.foldl_cons]
    have hfr := (Graph.lock_frame f g m).shape
    have h1 := ihm (Graph.lock f g m) (Ranked.frame hfr hr)
      (fun m' hm' => by rw [hfr.len]; exact hms m' (by simp [hm'])) x
    rw [h1, hfr.mx, ih g m hr (hms m (by simp)).1 (hms m (by simp)).2 x]
    simp only [List.mem_cons, exists_eq_or_imp]
    constructor
    · rintro ((h | h | h) | h)
      · exact Or.inl h
      · exact Or.inr (Or.inl (Or.inl h))
      · exact Or.inr (Or.inl (Or.inr h))
      · exact Or.inr (Or.inr h)
    · rintro (h | (h | h) | h)
      · exact Or.inl (Or.inl h)
      · exact Or.inl (Or.inr (Or.inl h))
      · exact Or.inl (Or.inr (Or.inr h))
      · exact Or.inr h

/-- `lock` locks exactly the function and all its ancestors -/
theorem Graph.lock_lk (rk : Nat → Nat) : ∀ (f : Nat) (g : Graph) (n : Nat),
    Ranked g.len g.mx rk → n < g.len → rk n < f →
    ∀ x, (Graph.lock f g n).lk x = true ↔ (g.lk x = true ∨ x = n ∨ Anc g.mx x n)
  | 0, _, _, _, _, h => by omega
  | f + 1, g, n, hr, hn, hf => by
    intro x
    unfold Graph.lock
    have hfr := (Graph.set_locked_frame g n).shape
    have hmx : ((g.set n { g.get n with locked := true }).get n).mixins = g.mx n := congrFun hfr.mx n
    dsimp only
    rw [hmx]
    rw [Graph.lock_fold_lk rk f (Graph.lock_lk rk f) (g.mx n) _ (Ranked.frame hfr hr)
      (fun m hm => by
        rw [hfr.len]
        have := hr.2 n m hm
        exact ⟨this.2.1, by omega⟩) x]
    rw [hfr.mx, Graph.lk_set_locked g n hn x]
    constructor
    · rintro ((h | h) | ⟨m, hm, h | h⟩)
      · exact Or.inl h
      · exact Or.inr (Or.inl h)
      · subst h; exact Or.inr (Or.inr (Anc.direct hm))
      · exact Or.inr (Or.inr (Anc.step hm h))
    · rintro (h | h | h)
      · exact Or.inl (Or.inl h)
      · exact Or.inl (Or.inr h)
      · right
        cases h with
        | direct hm => exact ⟨_, hm, Or.inl rfl⟩
        | step hm h => exact ⟨_, hm, Or.inr h⟩

theorem Graph.lock_closed (rk : Nat → Nat) (f : Nat) (g : Graph) (n : Nat)
    (hr : Ranked g.len g.mx rk) (hn : n < g.len) (hf : rk n < f) (hc : LockClosed g.mx g.lk) :
    LockClosed (Graph.lock f g n).mx (Graph.lock f g n).lk := by
  have hl := Graph.lock_lk rk f g n hr hn hf
  rw [(Graph.lock_frame f g n).shape.mx]
  intro x hx m hm
  rw [hl]
  rcases (hl x).mp hx with h | h | h
  · exact Or.inl (hc x h m hm)
  · subst h; exact Or.inr (Or.inr (Anc.direct hm))
  · exact Or.inr (Or.inr (Anc.head hm h))

/-! ## `lockUnlinked` -/

theorem Graph.lockUnlinked_fold (rk : Nat → Nat) (f n : Nat)
    (ih : ∀ (g : Graph) (m : Nat), Ranked g.len g.mx rk → Mirror g.len g.mx g.ch → m < g.len → rk m < f →
      (LockClosed g.mx g.lk → LockClosed (Graph.lockUnlinked f g m).mx (Graph.lockUnlinked f g m).lk) ∧
      Fixed (Graph.lockUnlinked f g m).mx (Graph.lockUnlinked f g m).ch (Graph.lockUnlinked f g m).lk m) :
    ∀ (ms : List Nat) (g : Graph), Ranked g.len g.mx rk → Mirror g.len g.mx g.ch →
      (∀ m ∈ ms, m < g.len ∧ rk m < f) →
      let g' := ms.foldl (fun g m =>
        if (g.get m).children.contains n then Graph.lockUnlinked f g m else Graph.lock f g m) g
      Frame g g' ∧ (LockClosed g.mx g.lk → LockClosed g'.mx g'.lk) ∧
      ∀ m ∈ ms, (n ∈ g.ch m → Fixed g'.mx g'.ch g'.lk m) ∧ (n ∉ g.ch m → g'.lk m = true) := by
  intro ms
  induction ms with
  | nil => intro g _ _ _; exact ⟨Frame.refl g, fun h => h, fun _ h => by simp at h⟩
  | cons m ms ihm =>
    intro g hr hmi hms
    simp only [List.foldl_cons]
    have hm := hms m (by simp)
    -- the first step
    have hstep : ∃ g1, g1 = (if (g.get m).children.contains n then Graph.lockUnlinked f g m else Graph.lock f g m) ∧
        Frame g g1 ∧ (LockClosed g.mx g.lk → LockClosed g1.mx g1.lk) ∧
        (n ∈ g.ch m → Fixed g1.mx g1.ch g1.lk m) ∧ (n ∉ g.ch m → g1.lk m = true) := by
      refine ⟨_, rfl, ?_⟩
      by_cases hc : n ∈ g.ch m
      · have : (g.get m).children.contains n = true := by simpa [Graph.ch] using hc
        rw [if_pos this]
        exact ⟨Graph.lockUnlinked_frame f g m, (ih g m hr hmi hm.1 hm.2).1,
          fun _ => (ih g m hr hmi hm.1 hm.2).2, fun h => absurd hc h⟩
      · have : ¬ ((g.get m).children.contains n = true) := by simpa [Graph.ch] using hc
        rw [if_neg this]
        exact ⟨Graph.lock_frame f g m, Graph.lock_closed rk f g m hr hm.1 hm.2,
          fun h => absurd h hc, fun _ => (Graph.lock_lk rk f g m hr hm.1 hm.2 m).mpr (Or.inr (Or.inl rfl))⟩
    obtain ⟨g1, hg1, hfr1, hcl1, hfix1, hlk1⟩ := hstep
    rw [← hg1]
    have h2 := ihm g1 (Ranked.frame hfr1.shape hr) (Mirror.frame hfr1.shape hmi)
      (fun m' hm' => by rw [hfr1.shape.len]; exact hms m' (by simp [hm']))
    dsimp only at h2 ⊢
    obtain ⟨hfr2, hcl2, hrest⟩ := h2
    refine ⟨hfr1.trans hfr2, fun h => hcl2 (hcl1 h), ?_⟩
    intro m' hm'
    rcases List.mem_cons.mp hm' with rfl | hm'
    · exact ⟨fun h => Fixed.frame hfr2 (hfix1 h), fun h => hfr2.mono _ (hlk1 h)⟩
    · have := hrest m' hm'
      rw [hfr1.shape.ch] at this
      exact this

theorem Graph.lockUnlinked_spec (rk : Nat → Nat) : ∀ (f : Nat) (g : Graph) (n : Nat),
    Ranked g.len g.mx rk → Mirror g.len g.mx g.ch → n < g.len → rk n < f →
    (LockClosed g.mx g.lk → LockClosed (Graph.lockUnlinked f g n).mx (Graph.lockUnlinked f g n).lk) ∧
    Fixed (Graph.lockUnlinked f g n).mx (Graph.lockUnlinked f g n).ch (Graph.lockUnlinked f g n).lk n
  | 0, _, _, _, _, _, h => by omega
  | f + 1, g, n, hr, hmi, hn, hf => by
    have hfold := Graph.lockUnlinked_fold rk f n (Graph.lockUnlinked_spec rk f) (g.mx n) g hr hmi
      (fun m hm => by have := hr.2 n m hm; exact ⟨this.2.1, by omega⟩)
    have heq : Graph.lockUnlinked (f + 1) g n = (g.mx n).foldl (fun g m =>
        if (g.get m).children.contains n then Graph.lockUnlinked f g m else Graph.lock f g m) g := rfl
    rw [heq]
    dsimp only at hfold
    obtain ⟨hfr, hcl, hrest⟩ := hfold
    refine ⟨hcl, ?_⟩
    intro x hx m hm
    rw [hfr.shape.mx] at hm
    rw [hfr.shape.ch]
    rw [hfr.shape.ch] at hx
    rcases hx.tail_cases with rfl | ⟨b, hb, hxb⟩
    · by_cases hc : x ∈ g.ch m
      · exact Or.inr hc
      · exact Or.inl ((hrest m hm).2 hc)
    · have hbm : b ∈ g.mx n := (hmi b n hb).2
      have := (hrest b hbm).1 hb
      rw [hfr.shape.mx, hfr.shape.ch] at this
      exact this x hxb m hm

/-! ## `compile` -/

theorem Graph.compile_ok (g : Graph) (n : Nat) (g' : Graph) (h : g.compile n = (g', none)) :
    ∃ ana mm, g' = (Graph.lockUnlinked (g.nodes.length + 1) g n).set n
      { (Graph.lockUnlinked (g.nodes.length + 1) g n).get n with
        compiled := true, mm := mm, ana := ana,
        built := (Graph.lockUnlinked (g.nodes.length + 1) g n).defns
          (Graph.lockUnlinked (g.nodes.length + 1) g n).depth n } := by
  unfold Graph.compile at h
  dsimp only at h
  split at h
  · cases h
  · next ana _ => exact ⟨ana, _, (Prod.mk.inj h).1.symm⟩

/-- result of a successful `compile` -/
structure CompRes (g g' : Graph) (n : Nat) : Prop where
  shape : Shape g g'
  cp_n : g'.cp n = true
  cp_ne : ∀ k, k ≠ n → g'.cp k = g.cp k
  mono : ∀ k, g.lk k = true → g'.lk k = true
  closed : LockClosed g.mx g.lk → LockClosed g'.mx g'.lk
  bt_n : g'.bt n = g.defns g.depth n
  bt_ne : ∀ k, k ≠ n → g'.bt k = g.bt k
  fixed : Fixed g'.mx g'.ch g'.lk n

theorem Graph.compile_spec (rk : Nat → Nat) (g : Graph) (n : Nat) (hr : Ranked g.len g.mx rk)
    (hmi : Mirror g.len g.mx g.ch) (hn : n < g.len) (g' : Graph) (h : g.compile n = (g', none)) :
    CompRes g g' n := by
  obtain ⟨ana, mm, rfl⟩ := Graph.compile_ok g n g' h
  have hfr := Graph.lockUnlinked_frame (g.nodes.length + 1) g n
  have hsp := Graph.lockUnlinked_spec rk (g.nodes.length + 1) g n hr hmi hn
    (by have := hr.1 n hn; show rk n < g.len + 1; omega)
  generalize Graph.lockUnlinked (g.nodes.length + 1) g n = g1 at hfr hsp ⊢
  have hn1 : n < g1.nodes.length := by have := hfr.shape.len; unfold Graph.len at this hn; omega
  have hmx : (g1.set n { g1.get n with compiled := true, mm := mm, ana := ana, built := g1.defns g1.depth n }).mx = g1.mx :=
    Graph.proj_set Node.mixins g1 n _ rfl
  have hch : (g1.set n { g1.get n with compiled := true, mm := mm, ana := ana, built := g1.defns g1.depth n }).ch = g1.ch :=
    Graph.proj_set Node.children g1 n _ rfl
  have how : (g1.set n { g1.get n with compiled := true, mm := mm, ana := ana, built := g1.defns g1.depth n }).ow = g1.ow :=
    Graph.proj_set Node.own g1 n _ rfl
  have hlk : (g1.set n { g1.get n with compiled := true, mm := mm, ana := ana, built := g1.defns g1.depth n }).lk = g1.lk :=
    Graph.proj_set Node.locked g1 n _ rfl
  refine ⟨hfr.shape.trans ⟨Graph.len_set _ _ _, hmx, hch, how⟩, ?_, ?_, ?_, ?_, ?_, ?_, ?_⟩
  · show ((g1.set n _).get n).compiled = true
    rw [Graph.get_set, if_pos ⟨rfl, hn1⟩]
  · intro k hk
    show ((g1.set n _).get k).compiled = _
    rw [Graph.get_set, if_neg (fun hh => hk hh.1)]
    exact congrFun hfr.cp k
  · intro k hk; rw [hlk]; exact hfr.mono k hk
  · intro hc; rw [hmx, hlk]; exact hsp.1 hc
  · show ((g1.set n _).get n).built = _
    rw [Graph.get_set, if_pos ⟨rfl, hn1⟩]
    show g1.defns g1.depth n = _
    rw [Graph.defns_congr g g1 hfr.shape.mx hfr.shape.ow, Graph.depth_eq, Graph.depth_eq, hfr.shape.len]
  · intro k hk
    show ((g1.set n _).get k).built = _
    rw [Graph.get_set, if_neg (fun hh => hk hh.1)]
    exact congrFun hfr.bt k
  · rw [hmx, hch, hlk]; exact hsp.2

/-! ## `update` -/

/-- one or several recompilations towards the target definitions `D` -/
structure Upd (D : Nat → List (Def × Int)) (g g' : Graph) : Prop where
  shape : Shape g g'
  cp : g'.cp = g.cp
  mono : ∀ k, g.lk k = true → g'.lk k = true
  closed : LockClosed g.mx g.lk → LockClosed g'.mx g'.lk
  bt : ∀ k, g'.bt k = g.bt k ∨ g'.bt k = D k

theorem Upd.refl (D : Nat → List (Def × Int)) (g : Graph) : Upd D g g :=
  ⟨Shape.refl g, rfl, fun _ h => h, fun h => h, fun _ => Or.inl rfl⟩

theorem Upd.trans {D : Nat → List (Def × Int)} {a b c : Graph} (h1 : Upd D a b) (h2 : Upd D b c) : Upd D a c :=
  ⟨h1.shape.trans h2.shape, h2.cp.trans h1.cp, fun k h => h2.mono k (h1.mono k h),
   fun h => h2.closed (h1.closed h), fun k => by
    rcases h2.bt k with h | h
    · rw [h]; exact h1.bt k
    · exact Or.inr h⟩

/-- `c` is up to date and safe -/
def Done (D : Nat → List (Def × Int)) (g : Graph) (c : Nat) : Prop :=
  g.bt c = D c ∧ Fixed g.mx g.ch g.lk c

theorem Done.upd {D : Nat → List (Def × Int)} {g g' : Graph} (h : Upd D g g') {c : Nat} (hd : Done D g c) :
    Done D g' c := by
  refine ⟨?_, ?_⟩
  · rcases h.bt c with h1 | h1
    · rw [h1]; exact hd.1
    · exact h1
  · rw [h.shape.mx, h.shape.ch]
    intro x hx m hm
    rcases hd.2 x hx m hm with h1 | h1
    · exact Or.inl (h.mono _ h1)
    · exact Or.inr h1

theorem CompRes.upd {g g' : Graph} {n : Nat} (h : CompRes g g' n) (hc : g.cp n = true) :
    Upd (fun k => g.defns g.depth k) g g' := by
  refine ⟨h.shape, ?_, h.mono, h.closed, ?_⟩
  · funext k
    by_cases hk : k = n
    · subst hk; rw [h.cp_n, hc]
    · exact h.cp_ne k hk
  · intro k
    by_cases hk : k = n
    · subst hk; exact Or.inr h.bt_n
    · exact Or.inl (h.bt_ne k hk)

/-- the step function of the fold in `update`, with projections -/
theorem Graph.update_succ (f : Nat) (g : Graph) (n : Nat) :
    Graph.update (f + 1) g n =
      ((if (g.get n).compiled then g.compile n else (g, none)).1.get n).children.foldl
        (fun (acc : Graph × Option CfgErr) c =>
          ((Graph.update f acc.1 c).1, match acc.2 with | some e => some e | none => (Graph.update f acc.1 c).2))
        (if (g.get n).compiled then g.compile n else (g, none)) := by
  conv => lhs; unfold Graph.update
  rfl

theorem Graph.defnsD_frame {D : Nat → List (Def × Int)} {g g' : Graph} (h : Shape g g')
    (hD : ∀ k, g.defns g.depth k = D k) : ∀ k, g'.defns g'.depth k = D k := by
  intro k
  rw [Graph.defns_congr g g' h.mx h.ow, Graph.depth_eq, h.len, ← Graph.depth_eq]
  exact hD k

theorem Graph.update_fold (D : Nat → List (Def × Int)) (rk : Nat → Nat) (f : Nat)
    (ih : ∀ (g : Graph) (n : Nat) (g' : Graph), Ranked g.len g.mx rk → Mirror g.len g.mx g.ch →
      (∀ k, g.defns g.depth k = D k) → n < g.len → g.len < f + rk n → Graph.update f g n = (g', none) →
      Upd D g g' ∧ ∀ c, LPath g.ch n c → g.cp c = true → Done D g' c) :
    ∀ (cs : List Nat) (ga : Graph) (ea : Option CfgErr) (gb : Graph),
      Ranked ga.len ga.mx rk → Mirror ga.len ga.mx ga.ch → (∀ k, ga.defns ga.depth k = D k) →
      (∀ c ∈ cs, c < ga.len ∧ ga.len < f + rk c) →
      cs.foldl (fun (acc : Graph × Option CfgErr) c =>
          ((Graph.update f acc.1 c).1, match acc.2 with | some e => some e | none => (Graph.update f acc.1 c).2))
        (ga, ea) = (gb, none) →
      ea = none ∧ Upd D ga gb ∧ ∀ c ∈ cs, ∀ c', LPath ga.ch c c' → ga.cp c' = true → Done D gb c' := by
  intro cs
  induction cs with
  | nil =>
    intro ga ea gb _ _ _ _ h
    simp only [List.foldl_nil] at h
    obtain ⟨rfl, rfl⟩ := Prod.mk.inj h
    exact ⟨rfl, Upd.refl D _, fun _ h => by simp at h⟩
  | cons c cs ihc =>
    intro ga ea gb hr hmi hD hcs h
    simp only [List.foldl_cons] at h
    cases hu : Graph.update f ga c with
    | mk g2 e2 =>
    rw [hu] at h
    dsimp only at h
    -- invariants transfer along the shape of the first step
    have hs2 : Shape ga g2 := by have := Graph.update_shape f ga c; rw [hu] at this; exact this
    obtain ⟨he, hupd2, hrest⟩ := ihc g2 _ gb (Ranked.frame hs2 hr) (Mirror.frame hs2 hmi)
      (Graph.defnsD_frame hs2 hD) (fun c' hc' => by rw [hs2.len]; exact hcs c' (by simp [hc'])) h
    have hea : ea = none ∧ e2 = none := by
      cases ea with
      | none => exact ⟨rfl, he⟩
      | some e => cases he
    obtain ⟨rfl, rfl⟩ := hea
    obtain ⟨hupd1, hreach1⟩ := ih ga c g2 hr hmi hD (hcs c (by simp)).1 (hcs c (by simp)).2 hu
    refine ⟨rfl, hupd1.trans hupd2, ?_⟩
    intro c0 hc0 c' hp hcp
    rcases List.mem_cons.mp hc0 with rfl | hc0
    · exact Done.upd hupd2 (hreach1 c' hp hcp)
    · apply hrest c0 hc0 c'
      · rw [hs2.ch]; exact hp
      · rw [hupd1.cp]; exact hcp

/-- `_update()` on `n`, all builds successful: every compiled function below `n` along linked paths has been
    rebuilt from the current definitions, nothing else changed but locks -/
theorem Graph.update_spec (D : Nat → List (Def × Int)) (rk : Nat → Nat) : ∀ (f : Nat) (g : Graph) (n : Nat) (g' : Graph),
    Ranked g.len g.mx rk → Mirror g.len g.mx g.ch →
    (∀ k, g.defns g.depth k = D k) → n < g.len → g.len < f + rk n → Graph.update f g n = (g', none) →
    Upd D g g' ∧ ∀ c, LPath g.ch n c → g.cp c = true → Done D g' c
  | 0, g, n, _, hr, _, _, hn, hf, _ => by have := hr.1 n hn; omega
  | f + 1, g, n, g', hr, hmi, hD, hn, hf, h => by
    rw [Graph.update_succ] at h
    -- first step: recompile `n` if it is compiled
    have h1 : ∃ g1 e1, (if (g.get n).compiled then g.compile n else (g, none)) = (g1, e1) ∧
        (e1 = none → Upd D g g1 ∧ (g.cp n = true → Done D g1 n)) := by
      by_cases hc : (g.get n).compiled = true
      · rw [if_pos hc]
        cases hcomp : g.compile n with
        | mk g1 e1 =>
        refine ⟨g1, e1, rfl, ?_⟩
        rintro rfl
        have hres := Graph.compile_spec rk g n hr hmi hn g1 hcomp
        have hD' : (fun k => g.defns g.depth k) = D := funext hD
        have hu := hres.upd hc
        rw [hD'] at hu
        exact ⟨hu, fun _ => ⟨by rw [hres.bt_n]; exact hD n, hres.fixed⟩⟩
      · rw [if_neg hc]
        exact ⟨g, none, rfl, fun _ => ⟨Upd.refl D g, fun h' => absurd h' hc⟩⟩
    obtain ⟨g1, e1, heq, hfirst⟩ := h1
    rw [heq] at h
    dsimp only at h
    have hs1 : Shape g g1 := by
      have : Shape g (if (g.get n).compiled then g.compile n else (g, none)).1 := by
        split
        · exact Graph.compile_shape g n
        · exact Shape.refl g
      rw [heq] at this; exact this
    have hchn : (g1.get n).children = g.ch n := congrFun hs1.ch n
    rw [hchn] at h
    obtain ⟨he1, hupd2, hrest⟩ := Graph.update_fold D rk f (Graph.update_spec D rk f) (g.ch n) g1 e1 g'
      (Ranked.frame hs1 hr) (Mirror.frame hs1 hmi) (Graph.defnsD_frame hs1 hD)
      (fun c hc => by
        rw [hs1.len]
        have := hr.child hmi hc
        exact ⟨this.2.1, by omega⟩) h
    obtain ⟨hupd1, hdone1⟩ := hfirst he1
    refine ⟨hupd1.trans hupd2, ?_⟩
    intro c hp hcp
    cases hp with
    | refl => exact Done.upd hupd2 (hdone1 hcp)
    | step hb hp' =>
      apply hrest _ hb c
      · rw [hs1.ch]; exact hp'
      · rw [hupd1.cp]; exact hcp

end Ovld
