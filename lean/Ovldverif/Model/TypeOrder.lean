import Ovldverif.Model.Ty
/-!
# Layer A (3/3): `mro.typeorder`, `mro.subclasscheck` and CPython's `issubclass` on the modelled types

Follows `src/ovld/mro.py` L43-157 branch by branch, with the hooks of `types.py`
(`Union`/`Intersection`/`SingleFunctionHandler`) and `dependent.py` (`DependentType`, `ProductType`,
`FuncDependentType.__lt__`) inlined.  All three functions recurse on a fuel argument
(`fuel := size t1 + size t2 + 1` at the top), so that they evaluate under `decide`.

The class hierarchy enters only through three tables, re-extracted from the live classes of every
scenario by the correspondence harness: `sub c d = issubclass(c, d)`, `hasAttr c m = hasattr(c, m)`,
`pred k c` = the k-th user `class_check` predicate on class `c`.  Class id 0 is `object`.
-/
set_option autoImplicit false

namespace Ovld

structure Hier where
  sub : Nat → Nat → Bool
  hasAttr : Nat → Nat → Bool
  pred : Nat → Nat → Bool

/-- `Union.__type_order__` (types.py L331-343) on the list of member comparisons -/
def unionOrd (cmp : List TOrd) : TOrd :=
  let c := cmp.filter (fun x => !x.isNone)
  if c.isEmpty then .none else if c.any TOrd.isMS then .more else .less

/-- `Intersection.__type_order__` (types.py L382-394) -/
def interOrd (cmp : List TOrd) : TOrd :=
  let c := cmp.filter (fun x => !x.isNone)
  if c.isEmpty then .none else if c.any TOrd.isLS then .less else .more

def zipWithT {α : Type} (f : Ty → Ty → α) : List Ty → List Ty → List α
  | a :: as, b :: bs => f a b :: zipWithT f as bs
  | _, _ => []

section
variable (H : Hier)

mutual
/-- `typeorder(t1, t2)` -/
def tord : Nat → Ty → Ty → TOrd
  | 0, _, _ => .none
  | f + 1, t1, t2 =>
    if Ty.beq t1 t2 then .same else
    match hook f t1 t2 with
    | some r => r
    | none =>
      match hook f t2 t1 with
      | some r => r.opposite
      | none =>
        match t1, t2 with
        | .gen o1 a1, .gen o2 a2 =>
          let r := tord f (.cls o1) (.cls o2)
          if r != .same then r
          else if !a1.isEmpty && a2.isEmpty then .less
          else if !a2.isEmpty && a1.isEmpty then .more
          else if a1.length != a2.length then .none
          else TOrd.merge (zipWithT (tord f) a1 a2)
        | .gen o1 _, _ =>
          let r := tord f (.cls o1) t2
          if r == .same then .less else r
        | _, .gen o2 _ =>
          let r := tord f (.cls o2) t1
          (if r == .same then TOrd.less else r).opposite
        | _, _ => ofSub (pyIssub f t1 t2) (pyIssub f t2 t1)

/-- `self.__type_order__(other)`; `none` = no such attribute, or `NotImplemented` -/
def hook : Nat → Ty → Ty → Option TOrd
  | f, .union ts, other => some (unionOrd (ts.map (fun t => tord f t other)))
  | f, .inter ts, other => some (interOrd (ts.map (fun t => tord f t other)))
  | f, .exactly _ c, other =>
    some (if Ty.beq other (.cls c) then .less else tord f (.cls c) other)
  | f, .prod ps _, other =>
    match other with
    | .prod qs _ =>
      some (if ps.length == qs.length then TOrd.merge (zipWithT (tord f) ps qs) else .none)
    | _ => none
  | f, .lit k b, other => some (depHook f (.lit k b) b other)
  | f, .fdep fn ps b, other => some (depHook f (.fdep fn ps b) b other)
  | _, _, _ => none

/-- `DependentType.__type_order__` (dependent.py L95-114) -/
def depHook : Nat → Ty → Ty → Ty → TOrd
  | f, self, bound, other =>
    match other.bound? with
    | some ob =>
      let o := tord f bound ob
      if o == .same then
        if Ty.depLt self other then .less
        else if Ty.depLt other self then .more
        else .none
      else o
    | none =>
      if subc f other bound || subc f bound other then .less else .none

/-- `subclasscheck(t1, t2)` (mro.py L109-157) -/
def subc : Nat → Ty → Ty → Bool
  | 0, _, _ => false
  | f + 1, t1, t2 =>
    if Ty.beq t1 t2 then true else
    match t2 with
    -- `__is_supertype__`
    | .union _ | .inter _ | .exactly .. | .strict .. | .hasm .. | .pred .. => pyIssub f t1 t2
    | .lit _ b | .prod _ b | .fdep _ _ b => if t1.isDepTop then false else subc f t1 b
    | .gen o2 a2 =>
      match t1 with
      | .gen o1 a1 =>
        H.sub o1 o2 && a1.length == a2.length && (zipWithT (subc f) a1 a2).all id
      | .cls c1 => H.sub c1 o2 && a2.isEmpty
      | _ => o2 == 0 && a2.isEmpty
    | .cls c2 =>
      match t1 with
      | .gen o1 _ => H.sub o1 c2
      | .cls c1 => H.sub c1 c2
      | _ => c2 == 0

/-- CPython's `issubclass(t1, t2)` for non-alias `t2` (metaclass `__subclasscheck__`s included) and the
    body of the `SingleFunctionHandler` handlers -/
def pyIssub : Nat → Ty → Ty → Bool
  | f, t1, .cls c2 =>
    match t1 with
    | .cls c1 => H.sub c1 c2
    | .gen .. => false
    | _ => c2 == 0
  | f, t1, .union ts => ts.any (fun t => subc f t1 t)
  | f, t1, .inter ts => ts.all (fun t => subc f t1 t)
  | _, t1, .exactly _ c => Ty.beq t1 (.cls c)
  | _, t1, .strict _ c =>
    match t1 with
    | .cls c1 => H.sub c1 c && c1 != c
    | .gen .. => false
    | _ => c == 0
  | _, t1, .hasm _ m =>
    match t1 with
    | .cls c1 => H.hasAttr c1 m
    | .gen o _ => H.hasAttr o m
    | _ => false
  | _, t1, .pred _ k =>
    match t1 with
    | .cls c1 => H.pred k c1
    | _ => false
  | _, _, _ => false
end

def typeorder (t1 t2 : Ty) : TOrd := tord H (t1.size + t2.size + 1) t1 t2
def subclasscheck (t1 t2 : Ty) : Bool := subc H (t1.size + t2.size + 1) t1 t2

end
end Ovld
