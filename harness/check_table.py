"""Table-level stream: the real MultiTypeMap vs the model (correspondence D), plus the oracles of
C02 (documented rule), C04 / C05 (fresh table), C06 (orders), C07 (call_next continuation keys), C20 (no
second resolution) evaluated on the real code."""

import copy
import json
import random

from common import use_repo
from corr_d import RANK, RankedSet, TableError, canon_entry, gen_scenario, key_tuple, make_handler, make_sig, run_impl, to_model

use_repo()


def kind(r):
    """outcome kind + method for comparison with the spec"""
    if r is None:
        return None
    if r[0] == "ok":
        e = r[1]
        if e[0] == "m":
            return ["ran", e[1]]
        return ["dep"]
    if r[0] == "amb":
        return ["ambiguous"]
    return [r[0]]


def fresh_impl(w, sc, upto):
    """the same lookup on a brand-new real table built from the registrations made so far"""
    regs = [op for op in sc["ops"][:upto] if op[0] == "reg"]
    sc2 = dict(sc)
    sc2["ops"] = regs + [sc["ops"][upto]]
    return run_impl(w, sc2)[-1]["r"]


def permuted(sc, rng):
    """same table, another registration order of the entries and other set iteration orders"""
    sc2 = copy.deepcopy(sc)
    regs = [op for op in sc2["ops"] if op[0] == "reg"]
    gets = [op for op in sc2["ops"] if op[0] == "get"]
    rng.shuffle(regs)
    sc2["ops"] = regs + gets
    rng.shuffle(sc2["tyrank_desc"])
    rng.shuffle(sc2["hrank"])
    return sc2


def distinct_sigs(sc):
    seen = []
    for m in sc["meths"]:
        k = json.dumps([m["params"], m["reqPos"], m["maxPos"], m["reqNames"]])
        if k in seen:
            return False
        seen.append(k)
    return True


def worker(payload):
    seed, n, static_only = payload[:3]
    cuts = len(payload) > 3 and payload[3]
    rng = random.Random(seed)
    batch = [gen_scenario(rng, static_only=static_only, cuts=cuts) for _ in range(n)]
    return evaluate_batch(batch, rng, static_only and not cuts)


def directed_from_levels(diffs):
    """search for a failing input around a broken levels correspondence: one single-position method per
    registered type of the disagreeing TypeMap, looked up (directly and through every continuation key) for the
    disagreeing class, and the same in the second of two positions"""
    from world import World

    batch = []
    for d in diffs:
        if d.get("layer") != "C" or "types" not in d:
            continue
        w = World(d["world"])
        types, q = d["types"], d["query"]
        for two in (False, True):
            meths = []
            for i, t in enumerate(types):
                params = [["p", 0, ["cls", 0]], ["p", 1, t]] if two else [["p", 0, t]]
                meths.append({"id": i, "code": 100 + i, "params": params, "reqPos": len(params), "maxPos": len(params), "reqNames": [], "prio": 0, "tb": 0})
            key = [["p", 0, q], ["p", 1, q]] if two else [["p", 0, q]]
            ops = [["reg", i] for i in range(len(meths))] + [["get", None, 0]] + [["get", 100 + i, 0] for i in range(len(meths))]
            sc = {"meths": meths, "keys_desc": [key], "rtypes_desc": [["cls", c] for c in range(w.n)], "ops": ops, "tyrank_desc": list(types), "hrank": list(range(len(meths)))}
            batch.append((w, sc))
    if not batch:
        return None
    # several shuffles: the order-independence oracle (C06) needs the right permutation to expose a dependence
    import check_main

    return check_main.merge_streams([evaluate_batch(batch, random.Random(k), True) for k in range(8)])


def directed_from_table(diffs):
    """re-run the disagreeing table scenarios under several other registration / set orders (C06's metamorphic
    oracle needs the right shuffle to expose an order dependence)"""
    from world import World

    outs = []
    for d in diffs[:3]:
        if d.get("layer") != "D" or "scenario" not in d or "scenario" not in d["scenario"]:
            continue
        w = World(d["scenario"]["world"])
        sc = d["scenario"]["scenario"]
        for k in range(8):
            outs.append(evaluate_batch([(w, sc)], random.Random(1000 + k), True))
    return outs


def evaluate_batch(batch, rng, static_only):
    from common import run_driver

    scs, impls, keep = [], [], []
    for w, sc in batch:
        impls.append(run_impl(w, sc))
        scs.append(to_model(w, sc))
        keep.append((w, sc))
    res = run_driver(scs)
    out = {"ops": 0, "corr": [], "hist": {}, "samples": [], "oracles": {}}

    def orc(name):
        return out["oracles"].setdefault(name, {"n": 0, "nontrivial": 0, "viol": [], "known": {}})

    def bump(k):
        out["hist"][k] = out["hist"].get(k, 0) + 1

    predicted = [True]

    def known(o, key, witness):
        if not predicted[0]:
            # inside a known-finding class the model must predict the real answer; a failure the model does not
            # predict is a new violation, not the listed one
            o["viol"].append({"law": f"fails inside class {key} but differently from the model", **witness})
            return
        e = o["known"].setdefault(key, {"count": 0, "witness": witness})
        e["count"] += 1

    for i, (r, im) in enumerate(zip(res, impls)):
        w, sc = keep[i]
        desc = {"world": w.desc, "scenario": sc}
        if "error" in r:
            out["corr"].append({"layer": "D", "kind": "driver-error", "detail": r["error"], "scenario": desc})
            continue
        corr_ok = True
        seen_get = False
        reg_after_get = False
        cut_seen = False
        broke_at = 0
        warm = {}
        for j, (a, b) in enumerate(zip(r["ops"], im)):
            out["ops"] += 1
            op = sc["ops"][j]
            ma = dict(a)
            info = None
            if isinstance(ma["r"], dict) and "nw" in ma["r"]:
                bump("interrupted lookups" + (": inside the writes" if ma["r"]["will"] and op[3] < ma["r"]["nw"] else ": no effect (hit / completed)"))
                ma["r"] = None
            if isinstance(ma["r"], dict):
                info = ma["r"]
                ma["r"] = info["res"]
                ma["nres"] = info["nres"]
            bb = {k: v for k, v in b.items() if k != "npred" and (k != "nres" or "nres" in ma)}
            if ma.get("r") == ["cycle"] and bb.get("r") == ["cycle"]:
                # sort_types hit a cycle (asymmetric order, finding D3): the lookup failed on both sides; whether the
                # abandoned resolution counts as one is not modelled (C20 is about lookups that succeeded)
                ma.pop("nres", None)
                bb.pop("nres", None)
            predicted[0] = True
            stop_after = False
            if not corr_ok:
                # after a break at an interrupted lookup: keep evaluating the oracles on the lookups that follow
                predicted[0] = False
                stop_after = op[0] == "reg" or j > broke_at + 12
            elif ma != bb:
                out["corr"].append({"layer": "D", "op_index": j, "op": op, "model": ma, "impl": b, "scenario": desc})
                corr_ok = False
                broke_at = j
                predicted[0] = False
                # the oracles look at the real code (and at the specification, which does not depend on the caches):
                # keep evaluating them on the lookups that follow, the failing input is often a later one
                stop_after = False
                if op[0] == "reg":
                    break
            if op[0] == "cut":
                cut_seen = True
                continue
            if op[0] != "get":
                if seen_get:
                    reg_after_get = True
                cut_seen = False
                warm = {}
                continue
            seen_get = True
            # ---- C20: a lookup that already succeeded (no registration since) consults nothing again
            o20 = orc("C20")
            gk = json.dumps(op)
            if gk in warm:
                o20["n"] += 1
                if any(t[0] in ("pred",) for m in sc["meths"] for _, _, t in m["params"]):
                    o20["nontrivial"] += 1
                if b["nres"] or b["npred"]:
                    o20["viol"].append({"law": "a lookup that had already succeeded resolved / consulted user predicates again", "nres": b["nres"], "npred": b["npred"], "op_index": j, "op": op, "scenario": desc})
            if b["r"] and b["r"][0] == "ok":
                warm[gk] = True
            ik = kind(b["r"])
            bump("outcome:" + ik[0])
            # ---- C04 / C05: same answer as on a fresh table with the same registrations
            o4 = orc("C18") if cut_seen else (orc("C05") if reg_after_get else orc("C04"))
            fr = fresh_impl(w, sc, j)
            o4["n"] += 1
            if ik[0] in ("ran", "ambiguous"):
                o4["nontrivial"] += 1
            if fr != b["r"]:
                o4["viol"].append({"law": "lookup differs from the same lookup on a freshly built table", "op_index": j, "op": op, "impl": b["r"], "fresh": fr, "scenario": desc})
            # ---- C02 / C07: documented rule
            if info is not None and ik[0] != "dep":
                name = "C02" if op[1] is None else "C07"
                o2 = orc(name)
                o2["n"] += 1
                spec = info["spec"]
                if info["napp"] >= 2:
                    o2["nontrivial"] += 1
                if ik[0] == "keyerror":
                    known(o2, "D24:zero-arg-continuation", {"kind": "table", "world": w.desc, "scenario": sc, "op_index": j})
                elif not info["static"]:
                    bump("non-static table (rule not evaluated)")
                elif ik != spec:
                    wit = {"kind": "table", "world": w.desc, "scenario": sc, "op_index": j, "impl": ik, "spec": spec}
                    if not info["cc"]:
                        known(o2, "D1:levels-of-unrelated-types", wit)
                    elif not info["tie"]:
                        known(o2, "D21:tiebreak-across-signatures", wit)
                    elif name == "C07":
                        known(o2, "D18:continuation-below-tied-rank", wit)
                    else:
                        o2["viol"].append({"law": "documented priority/specificity/recency rule", **wit, "scenario": desc})
            if stop_after:
                break
        # ---- C06: other registration order / set orders give the same outcomes (static, distinct signatures)
        if static_only and distinct_sigs(sc):
            sc2 = permuted(sc, rng)
            try:
                im2 = run_impl(w, sc2)
            except Exception as e:  # noqa
                im2 = None
            o6 = orc("C06")
            gets1 = [kind(b["r"]) for b, op in zip(im, sc["ops"]) if op[0] == "get"]
            regs1 = len([op for op in sc["ops"] if op[0] == "reg"])
            # compare only lookups made after all registrations in the original
            allreg_idx = max(idx for idx, op in enumerate(sc["ops"]) if op[0] == "reg")
            gets_after = [(idx, kind(im[idx]["r"])) for idx, op in enumerate(sc["ops"]) if op[0] == "get" and idx > allreg_idx]
            if im2 is not None:
                gi = [idx for idx, op in enumerate(sc["ops"]) if op[0] == "get"]
                for idx, k1 in gets_after:
                    pos = gi.index(idx)
                    k2 = kind(im2[regs1 + pos]["r"])
                    o6["n"] += 1
                    if k1[0] in ("ran", "ambiguous"):
                        o6["nontrivial"] += 1
                    if k1 != k2 and not (k1[0] == "ambiguous" and k2[0] == "ambiguous"):
                        o6["viol"].append({"law": "outcome depends on registration / iteration order", "op": sc["ops"][idx], "first": k1, "second": k2, "scenario": desc, "permuted": sc2})
        if len(out["samples"]) < 2 and im:
            j = len(im) - 1
            out["samples"].append({"op": sc["ops"][j], "impl": im[j]["r"], "model": r["ops"][j]["r"] if "error" not in r else None})
    return out
