import Ovldverif.Model.BuildForest
import Ovldverif.Props.C18Tree
/-!
# C18 for a function with any number of linked variants

`Props/C18Tree.lean` is about a function and one linked variant.  Here the function has a list of them of any length
(model: `Model/BuildForest.lean`).  After ANY history of registrations / removals on the function, new variants,
registrations on the variants and calls of any of them — with natural failures and an interrupt inside any of the
builds — the function and EVERY variant is either out of service or serves exactly the complete set of definitions it
is to be built from.

`C18_forest_old_counterexample` (finding D47): with the `_update` of before the fix, whose loop over the variants
ended at the first variant that could not be rebuilt, the variants after it kept dispatching over the previous
definitions.
-/
set_option autoImplicit false
namespace Ovld.Build

theorem Child.safe_iff (p : S) (ch : Child) :
    ch.safe p = true ↔ Safe ch.c ∧ ch.c.defns = ch.eff p := by
  unfold Child.safe
  rw [Bool.and_eq_true, beq_iff_eq]
  constructor
  · rintro ⟨h1, h2⟩
    refine ⟨?_, h2⟩
    rw [← h2] at h1
    exact (safeS_iff ch.c).1 h1
  · rintro ⟨h1, h2⟩
    refine ⟨?_, h2⟩
    rw [← h2]
    exact (safeS_iff ch.c).2 h1

theorem F.safe_iff (t : F) : t.safe = true ↔ Safe t.p ∧ ∀ ch ∈ t.cs, Safe ch.c ∧ ch.c.defns = ch.eff t.p := by
  unfold F.safe
  rw [Bool.and_eq_true, safeS_iff, List.all_eq_true]
  constructor
  · rintro ⟨h1, h2⟩
    exact ⟨h1, fun ch hc => (Child.safe_iff t.p ch).1 (h2 ch hc)⟩
  · rintro ⟨h1, h2⟩
    exact ⟨h1, fun ch hc => (Child.safe_iff t.p ch).2 (h2 ch hc)⟩

/-- `child._update()`: whatever happens inside it, the variant ends up out of service or complete, over the
    function's current definitions and its own -/
theorem updChild_spec (cfg : Cfg) (p : S) (ch : Child) (ic : Bool) (hc : Pre ch.c) :
    (updChild cfg p ch ic).1.own = ch.own ∧ Safe (updChild cfg p ch ic).1.c ∧
      (updChild cfg p ch ic).1.c.defns = ch.eff p := by
  unfold updChild
  split
  · have h := compile_safe cfg (ch.view p) (intr ic)
    rcases hcomp : compile cfg (ch.view p) (intr ic) with ⟨s', ok, f'⟩
    rw [hcomp] at h
    exact ⟨rfl, h.1, h.2⟩
  · rename_i hn
    simp at hn
    exact ⟨rfl, Or.inl ⟨hc hn, hn⟩, rfl⟩

theorem updAll_spec (cfg : Cfg) (p : S) : ∀ (cs : List Child) (ics : List Bool), (∀ ch ∈ cs, Pre ch.c) →
    ∀ ch' ∈ (updAll cfg p cs ics).1, Safe ch'.c ∧ ch'.c.defns = ch'.eff p
  | [], _, _, ch', h => by cases h
  | ch :: rest, ics, hpre, ch', h => by
    simp only [updAll, List.mem_cons] at h
    rcases h with h | h
    · obtain ⟨h1, h2, h3⟩ := updChild_spec cfg p ch (ics.headD false) (hpre ch (by simp))
      subst h
      refine ⟨h2, ?_⟩
      rw [h3]; unfold Child.eff; rw [h1]
    · exact updAll_spec cfg p rest ics.tail (fun x hx => hpre x (by simp [hx])) ch' h

theorem updAll_length (cfg : Cfg) (p : S) : ∀ (cs : List Child) (ics : List Bool),
    (updAll cfg p cs ics).1.length = cs.length
  | [], _ => rfl
  | _ :: rest, ics => by simp [updAll, updAll_length cfg p rest ics.tail]

theorem rebuildP_safe (cfg : Cfg) (p : S) (ip : Bool) (hp : Pre p) :
    Safe (rebuildP cfg p ip).1 ∧ (rebuildP cfg p ip).1.defns = p.defns := by
  unfold rebuildP
  split
  · have h := compile_safe cfg p (intr ip)
    rcases hcomp : compile cfg p (intr ip) with ⟨s', ok, f'⟩
    rw [hcomp] at h
    exact ⟨h.1, h.2⟩
  · rename_i hn
    simp at hn
    exact ⟨Or.inl ⟨hp hn, hn⟩, rfl⟩

theorem updateF_safe (cfg : Cfg) (t : F) (ip : Bool) (ics : List Bool) (hp : Pre t.p)
    (hc : ∀ ch ∈ t.cs, Pre ch.c) : (updateF updAll cfg t ip ics).1.safe = true := by
  rw [F.safe_iff]
  exact ⟨(rebuildP_safe cfg t.p ip hp).1, updAll_spec cfg _ t.cs ics hc⟩

theorem mem_set {α : Type} {l : List α} {i : Nat} {a x : α} (h : x ∈ l.set i a) : x = a ∨ x ∈ l := by
  rcases List.mem_or_eq_of_mem_set h with h | h
  · exact Or.inr h
  · exact Or.inl h

/-- **one operation** keeps the function and all its variants safe -/
theorem C18_forest_step (cfg : Cfg) (t : F) (op : FOp) (h : t.safe = true) : (stepF cfg t op).1.safe = true := by
  obtain ⟨hp, hcs⟩ := (F.safe_iff t).1 h
  have hpre : ∀ ch ∈ t.cs, Pre ch.c := fun ch hc hn => entry_none_of_not_compiled (hcs ch hc).1 hn
  cases op with
  | regP d ip ics => exact updateF_safe cfg _ ip ics (pre_of_safe hp _) hpre
  | unregP d ip ics => exact updateF_safe cfg _ ip ics (pre_of_safe hp _) hpre
  | newC =>
    show ({ t with cs := t.cs ++ [{ c := { defns := t.p.defns }, own := [] }] } : F).safe = true
    rw [F.safe_iff]
    refine ⟨hp, ?_⟩
    intro ch hc
    rcases List.mem_append.1 hc with hc | hc
    · exact hcs ch hc
    · simp at hc; subst hc
      exact ⟨Or.inl ⟨rfl, rfl⟩, by simp [Child.eff]⟩
  | regC i d ic =>
    show (match t.cs[i]? with
      | none => (t, Out.error)
      | some ch =>
        let r := updChild cfg t.p { ch with own := addDef ch.own d } ic
        (({ t with cs := t.cs.set i r.1 } : F), if r.2 then Out.done else Out.error)).1.safe = true
    cases hi : t.cs[i]? with
    | none => exact h
    | some ch =>
      have hmem : ch ∈ t.cs := List.mem_of_getElem? hi
      obtain ⟨h1, h2, h3⟩ := updChild_spec cfg t.p { ch with own := addDef ch.own d } ic (hpre ch hmem)
      show ({ t with cs := t.cs.set i _ } : F).safe = true
      rw [F.safe_iff]
      refine ⟨hp, ?_⟩
      intro x hx
      rcases mem_set hx with hx | hx
      · subst hx
        refine ⟨h2, ?_⟩
        rw [h3]; unfold Child.eff; rw [h1]
      · exact hcs x hx
  | callP r ip =>
    have hs := call_spec cfg t.p r (intr ip) hp
    show (match call cfg t.p r (intr ip) with
      | (p', o) => (({ t with p := p' } : F), o)).1.safe = true
    rcases hcall : call cfg t.p r (intr ip) with ⟨p', o⟩
    rw [hcall] at hs
    show ({ t with p := p' } : F).safe = true
    rw [F.safe_iff]
    refine ⟨hs.2.1, ?_⟩
    intro ch hc
    refine ⟨(hcs ch hc).1, ?_⟩
    show ch.c.defns = p'.defns ++ ch.own
    rw [hs.2.2.1]; exact (hcs ch hc).2
  | callC i r ic =>
    show (match t.cs[i]? with
      | none => (t, Out.error)
      | some ch =>
        match call cfg (ch.view t.p) r (intr ic) with
        | (c', o) => (({ t with cs := t.cs.set i { ch with c := c' } } : F), o)).1.safe = true
    cases hi : t.cs[i]? with
    | none => exact h
    | some ch =>
      have hmem : ch ∈ t.cs := List.mem_of_getElem? hi
      have hv : ch.view t.p = ch.c := view_eq_of_defns (hcs ch hmem).2
      have hs := call_spec cfg (ch.view t.p) r (intr ic) (hv ▸ (hcs ch hmem).1)
      dsimp only
      rcases hcall : call cfg (ch.view t.p) r (intr ic) with ⟨c', o⟩
      rw [hcall] at hs
      show ({ t with cs := t.cs.set i { ch with c := c' } } : F).safe = true
      rw [F.safe_iff]
      refine ⟨hp, ?_⟩
      intro x hx
      rcases mem_set hx with hx | hx
      · subst hx
        exact ⟨hs.2.1, hs.2.2.1⟩
      · exact hcs x hx

theorem runF_safe (cfg : Cfg) : ∀ (ops : List FOp) (t : F), t.safe = true → (runF cfg t ops).safe = true := by
  intro ops
  induction ops with
  | nil => intro t h; exact h
  | cons op rest ih => intro t h; exact ih _ (C18_forest_step cfg t op h)

/-- **every history**: the function and every one of its linked variants is never left serving anything but the
    complete set of definitions it is to be built from -/
theorem C18_forest (cfg : Cfg) (ops : List FOp) : (runF cfg {} ops).safe = true :=
  runF_safe cfg ops {} (by decide)

/-- **later calls of any variant** either fail or are answered by the entry point of the complete merged method set
    over the complete table -/
theorem C18_forest_call (cfg : Cfg) (ops : List FOp) (i : Nat) (ch : Child) (r : Route) (ic : Bool)
    (hi : (runF cfg {} ops).cs[i]? = some ch) :
    let t := runF cfg {} ops
    (stepF cfg t (.callC i r ic)).2 = .error ∨ (stepF cfg t (.callC i r ic)).2 = .served (ch.eff t.p) (ch.eff t.p) := by
  intro t
  have h : t.safe = true := C18_forest cfg ops
  obtain ⟨_, hcs⟩ := (F.safe_iff t).1 h
  have hmem : ch ∈ t.cs := List.mem_of_getElem? hi
  have hv : ch.view t.p = ch.c := view_eq_of_defns (hcs ch hmem).2
  have hs : Safe (ch.view t.p) := hv ▸ (hcs ch hmem).1
  have e : (stepF cfg t (.callC i r ic)).2 = (call cfg (ch.view t.p) r (intr ic)).2 := by
    show (match t.cs[i]? with
      | none => (t, Out.error)
      | some ch =>
        match call cfg (ch.view t.p) r (intr ic) with
        | (c', o) => (({ t with cs := t.cs.set i { ch with c := c' } } : F), o)).2 = _
    rw [hi]
  rw [e]
  exact (C18_call cfg (ch.view t.p) r (intr ic) hs).1

/-- **once the offending method is removed every variant works normally**: a variant all of whose definitions can be
    built answers from the complete merged method set, whatever failed before -/
theorem C18_forest_recovers (cfg : Cfg) (ops : List FOp) (i : Nat) (ch : Child) (r : Route)
    (hi : (runF cfg {} ops).cs[i]? = some ch) (hg : AllGood cfg (ch.eff (runF cfg {} ops).p)) :
    let t := runF cfg {} ops
    (stepF cfg t (.callC i r false)).2 = .served (ch.eff t.p) (ch.eff t.p) := by
  intro t
  have h : t.safe = true := C18_forest cfg ops
  obtain ⟨_, hcs⟩ := (F.safe_iff t).1 h
  have hmem : ch ∈ t.cs := List.mem_of_getElem? hi
  have hv : ch.view t.p = ch.c := view_eq_of_defns (hcs ch hmem).2
  have hs : Safe (ch.view t.p) := hv ▸ (hcs ch hmem).1
  have e : (stepF cfg t (.callC i r false)).2 = (call cfg (ch.view t.p) r (intr false)).2 := by
    show (match t.cs[i]? with
      | none => (t, Out.error)
      | some ch =>
        match call cfg (ch.view t.p) r (intr false) with
        | (c', o) => (({ t with cs := t.cs.set i { ch with c := c' } } : F), o)).2 = _
    rw [hi]
  rw [e]
  exact C18_recovers cfg (ch.view t.p) r hs hg

/-- the defect that was repaired (finding D47): two linked variants, both in service; the function gets a method
    (`9`) the FIRST variant cannot be built with; with the former loop the second variant is never rebuilt and goes on
    answering from the previous definitions (`[1]` instead of `[1, 9]`) -/
theorem C18_forest_old_counterexample :
    let cfg : Cfg := ⟨fun _ => false, fun ds => !(ds.contains 9 && ds.contains 5)⟩
    let ops : List FOp := [.regP 1 false [], .newC, .regC 0 5 false, .newC, .callP .obj false,
      .callC 0 .obj false, .callC 1 .obj false, .regP 9 false []]
    (runFOld cfg {} ops).safe = false ∧
      (stepFOld cfg (runFOld cfg {} ops) (.callC 1 .fn false)).2 = .served [1] [1] ∧
      (runFOld cfg {} ops).p.defns = [1, 9] ∧
      (runF cfg {} ops).safe = true ∧
      (stepF cfg (runF cfg {} ops) (.callC 1 .fn false)).2 = .served [1, 9] [1, 9] ∧
      (stepF cfg (runF cfg {} ops) (.callC 0 .fn false)).2 = .error := by
  decide

/-- non-vacuity: three variants, a natural failure in one of them, an interrupt inside the rebuild of another -/
example :
    let cfg : Cfg := ⟨fun _ => false, fun ds => !(ds.contains 9 && ds.contains 5)⟩
    let ops : List FOp := [.regP 1 false [], .newC, .newC, .newC, .regC 1 5 false, .callC 0 .obj false,
      .callC 1 .obj false, .callC 2 .fn false, .regP 9 false [true, false, false], .callC 0 .fn false]
    (runF cfg {} ops).safe = true ∧ (runF cfg {} ops).cs.length = 3 ∧
      ((runF cfg {} ops).cs.map (fun ch => (ch.c.table, ch.c.compiled))) = [([1, 9], true), ([], false), ([1, 9], true)] := by
  decide

end Ovld.Build
