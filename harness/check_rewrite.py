"""C09 (behavioural half): methods whose bodies place recurse / call_next / self-name calls in every expression
context are registered with the real library (which rewrites their source) and compared with the un-rewritten
reference in which recurse / call_next are ordinary callables of the documented meaning: result, exception,
order and multiplicity of side effects, line numbers in tracebacks, defaults, closures, generators."""

import itertools
import linecache
import random
import sys
import traceback

from common import use_repo

use_repo()
_uid = [0]


class G:
    """grammar of expressions over the method's parameter `x` (a list), `y` (an int) and leaf values"""

    def __init__(self, rng, allow):
        self.rng = rng
        self.allow = allow  # set of features
        self.used = set()
        self.tag = 0

    def t(self):
        self.tag += 1
        return self.tag

    def leaf(self):
        r = self.rng.random()
        if r < 0.3:
            return f"TICK({self.t()}, y)"
        if r < 0.5:
            return f"TICK({self.t()}, {self.rng.randint(0, 5)})"
        if r < 0.65:
            return f"TICK({self.t()}, 's{self.rng.randint(0, 3)}')"
        if r < 0.8:
            return "y"
        return str(self.rng.randint(0, 9))

    def call(self, depth):
        """a recurse / call_next call"""
        rng = self.rng
        r = rng.random()
        fn = "recurse"
        if "call_next" in self.allow and r < 0.25:
            fn = "call_next"
        elif "selfname" in self.allow and r < 0.55:
            fn = "F"
        self.used.add(fn)
        arg = self.expr(depth - 1)
        r = rng.random()
        if fn != "call_next" and rng.random() < 0.08:
            # a later argument rebinds a name an earlier argument reads: the earlier value must be the one passed
            self.used.add("rebind")
            if "kw" in self.allow and rng.random() < 0.4:
                self.used.add("kw")
                return f"{fn}({arg}, tag=y, w=(y := TICK({self.t()}, {rng.randint(10, 19)})))"
            return f"{fn}(y, (y := TICK({self.t()}, {rng.randint(10, 19)})))"
        if "kw" in self.allow and r < 0.2 and fn != "call_next":
            self.used.add("kw")
            # one or two keyword arguments, in either order (their expressions must be evaluated as written)
            kws = rng.choice([["tag"], ["tag"], ["tag", "w"], ["w", "tag"], ["w"]])
            return f"{fn}({arg}, " + ", ".join(f"{k}={self.expr(depth - 1)}" for k in kws) + ")"
        if "starred" in self.allow and r < 0.3 and fn != "call_next":
            self.used.add("starred")
            return f"{fn}(*[{arg}])"
        if "dstar" in self.allow and r < 0.36 and fn == "recurse":
            self.used.add("dstar")
            return f"{fn}({arg}, **{{'tag': {self.leaf()}}})"
        if "cn_starred" in self.allow and fn == "call_next" and r < 0.5:
            self.used.add("cn_starred")
            return f"call_next(*[x])"
        if fn == "call_next":
            return "call_next(x)" if rng.random() < 0.5 else f"call_next({arg})"
        return f"{fn}({arg})"

    def expr(self, depth):
        rng = self.rng
        if depth <= 0:
            return self.leaf()
        r = rng.random()
        if r < 0.35:
            return self.call(depth)
        if r < 0.45:
            return f"({self.expr(depth - 1)} if {self.expr(depth - 1)} else {self.expr(depth - 1)})"
        if r < 0.55:
            return f"({self.expr(depth - 1)} {rng.choice(['and', 'or'])} {self.expr(depth - 1)})"
        if r < 0.63:
            self.used.add("comp_elt")
            return f"[{self.call(depth - 1)} for e in x if {self.expr(depth - 2)}]"
        if r < 0.68 and "comp_iter" in self.allow:
            self.used.add("comp_iter")
            return f"[e for e in {self.call(depth - 1)}]"
        if r < 0.73:
            self.used.add("genexp")
            return f"list({self.call(depth - 1)} for e in x)"
        if r < 0.78:
            self.used.add("lambda")
            return f"(lambda z: {self.call(depth - 1)})({self.leaf()})"
        if r < 0.83:
            self.used.add("fstring")
            return "f\"<{" + self.call(depth - 1).replace('"', "'") + "}>\""
        if r < 0.88:
            self.used.add("walrus")
            return f"((w := {self.call(depth - 1)}), w)"
        if r < 0.93:
            return f"({self.expr(depth - 1)}, {self.expr(depth - 1)})"
        return f"[{self.expr(depth - 1)}, {self.expr(depth - 1)}]"

    def body(self):
        rng = self.rng
        r = rng.random()
        e = self.expr(rng.randint(1, 3))
        if r < 0.55:
            return [f"return {e}"]
        if r < 0.65:
            self.used.add("try")
            return ["try:", f"    r = {e}", "finally:", f"    TICK({self.t()}, 'fin')", "return r"]
        if r < 0.75:
            self.used.add("nested_def")
            return ["def inner(z):", f"    return {self.call(1)}", f"return (inner({self.leaf()}), {e})"]
        if r < 0.85:
            self.used.add("generator")
            return ["def gen():", f"    yield {self.call(1)}", f"    yield {self.leaf()}", f"return (list(gen()), {e})"]
        if r < 0.93:
            self.used.add("raise")
            return [f"r = {e}", f"raise Boom({self.t()})"]
        self.used.add("for")
        return ["acc = []", "for e in x:", f"    acc.append({self.call(1)})", "return acc"]


class Boom(Exception):
    pass


log_reset = []
log_bad = []


def build(rng, lines, used, closure, kwdefault):
    """returns (ovld callable, reference callable, log) for one generated body"""
    from ovld import Ovld, call_next, recurse

    log = []

    def TICK(tag, v):
        log.append(("tick", tag))
        return v

    bad_entries = []

    def ACCEPT(name, x, T, y):
        # C01: a body is only ever entered with arguments its annotations accept
        if not isinstance(x, T) or not isinstance(y, int):
            bad_entries.append((name, repr(x)[:40], repr(y)[:20]))

    log_bad.append(bad_entries)
    entered = [0]

    def ENTERED():
        # budget on re-entries of the method under test (generated bodies may recurse on lists forever)
        entered[0] += 1
        return entered[0] > 5

    log_reset[:] = [entered]

    _uid[0] += 1
    pad = rng.randint(0, 4)
    hdr_params = "x: list, y: int = 3" + (", *, tag: object = 'dflt', w: object = 'dw'" if kwdefault else "")
    # now and then a default that holds a code object of its own (a lambda, a generator expression): it is compiled
    # ahead of the function, the rewriter must still pick the function's own code
    if _uid[0] % 5 == 0:
        extra = "post: object = (lambda r: ('post', r))" if _uid[0] % 2 else "gx: object = tuple(q * 2 for q in (1, 2))"
        hdr_params = hdr_params + (", " + extra if kwdefault else ", *, " + extra)

    def src_for(name, rec, cn, selfname):
        body = [l.replace("recurse(", rec + "(").replace("call_next(", cn + "(").replace("F(", selfname + "(") for l in lines]
        out = ["\n" * pad]
        if closure == 2:
            body = [l.replace(rec + "(", "rcs(") for l in body]
            out.append("def factory(cv, zz):")
            out.append(f"    rcs = {rec}")
            out.append(f"    def {name}({hdr_params}):")
            out.append("        if ENTERED(): return 'deep'")
            out.append("        TICK(('cv', repr(cv)[:20]), None)")
            out.append("        TICK(('zz', repr(zz)[:20]), None)")
            out += ["        " + l for l in body]
            out.append(f"    return {name}")
            out.append(f"{name} = factory(41, 43)")
        elif closure:
            out.append("def factory(cv):")
            out.append(f"    def {name}({hdr_params}):")
            out.append("        if ENTERED(): return 'deep'")
            out.append("        TICK('cv', cv)")
            out += ["        " + l for l in body]
            out.append(f"    return {name}")
            out.append(f"{name} = factory(41)")
        else:
            out.append(f"def {name}({hdr_params}):")
            out.append("    if ENTERED(): return 'deep'")
            out += ["    " + l for l in body]
        return "\n".join(out) + "\n"

    def leafs(glb):
        ex = """
def m_int(x: int, y: int = 3{kw}):
    ACCEPT('m_int', x, int, y)
    TICK(('int', x), None)
    return ('I', x{kwr})
def m_str(x: str, y: int = 3{kw}):
    ACCEPT('m_str', x, str, y)
    TICK(('str', x), None)
    return ('S', x{kwr})
def m_tup(x: tuple, y: int = 3{kw}):
    ACCEPT('m_tup', x, tuple, y)
    TICK(('tup', len(x)), None)
    return ('T', len(x){kwr})
def m_obj(x: object, y: int = 3{kw}):
    TICK(('obj', type(x).__name__), None)
    return ('O', type(x).__name__{kwr})
""".format(kw=", *, tag: object = 'dflt', w: object = 'dw'" if kwdefault else "", kwr=", tag, w" if kwdefault else "")
        exec(compile(ex, f"<verif-leafs-{_uid[0]}>", "exec"), glb)

    # --- the real thing
    log_bad[:] = log_bad[-1:]
    glb = {"TICK": TICK, "ACCEPT": ACCEPT, "ENTERED": ENTERED, "Boom": Boom, "recurse": recurse, "call_next": call_next, "__name__": "verif_rw"}
    leafs(glb)
    ov = Ovld()
    # without the catch-all method in a third of the scenarios: recurse / call_next then fail to find a method, and
    # the error must surface at the line of the call site as written
    leaf_names = ("m_int", "m_str", "m_tup", "m_obj") if (_uid[0] % 3) else ("m_int", "m_str", "m_tup")
    for n in leaf_names:
        ov.register(glb[n])
    src = src_for("m_list", "recurse", "call_next", "F")
    fname = f"<verif-rw-{_uid[0]}>"
    linecache.cache[fname] = (len(src), None, src.splitlines(True), fname)
    exec(compile(src, fname, "exec"), glb)
    ov.register(glb["m_list"])
    glb["F"] = ov.dispatch
    # --- the reference: same source, recurse / call_next / F bound to ordinary callables
    rglb = {"TICK": TICK, "ACCEPT": (lambda *a: None), "ENTERED": ENTERED, "Boom": Boom, "__name__": "verif_rw_ref"}
    leafs(rglb)
    ov_all = Ovld()
    ov_rest = Ovld()
    for n in leaf_names:
        ov_rest.register(rglb[n])
        ov_all.register(rglb[n])
    rsrc = src_for("m_list", "REC", "NXT", "REC")
    rname = f"<verif-rwref-{_uid[0]}>"
    linecache.cache[rname] = (len(rsrc), None, rsrc.splitlines(True), rname)
    # (the factory form with an alias reads REC while the source is executed: a forwarder until the real one exists)
    rglb["REC"] = lambda *a, **k: rglb["_REC"](*a, **k)
    exec(compile(rsrc, rname, "exec"), rglb)
    ref = rglb["m_list"]

    def REC(*a, **k):
        if a and isinstance(a[0], list) and type(a[0]) is list:
            return ref(*a, **k)
        return ov_all.dispatch(*a, **k) if hasattr(ov_all, "dispatch") else ov_all(*a, **k)

    def NXT(*a, **k):
        return ov_rest(*a, **k)

    rglb["_REC"] = REC
    rglb["REC"] = REC
    rglb["NXT"] = NXT
    return ov, ref, log, src, fname, rname


def outcome(fn, args, kwargs, log, fname):
    del log[:]
    for e in log_reset:
        e[0] = 0
    class _Stuck(BaseException):
        pass

    def _alarm(signum, frame):
        raise _Stuck()

    import signal

    old_h = signal.signal(signal.SIGALRM, _alarm)
    signal.setitimer(signal.ITIMER_REAL, 10.0)
    try:
        r = fn(*args, **kwargs)
        if hasattr(r, "__next__"):
            r = list(itertools.islice(r, 10000))
        return {"result": repr(r), "log": list(log)}
    except _Stuck:
        # a call that does not come back within 10 s (the generated bodies are bounded by ENTERED): an outcome like any
        # other, to be compared with the reference
        return {"exc": "DoesNotReturn", "log": []}
    except RecursionError:
        return {"exc": "RecursionError", "log": []}
    except BaseException as e:  # noqa
        lines = [fr.lineno for fr in traceback.extract_tb(e.__traceback__) if fr.filename == fname]
        msg = str(e)
        if isinstance(e, TypeError) and ("No method" in msg or "Ambiguous" in msg):
            msg = msg.split(" in ")[0] + " " + msg.split("argument types")[-1][:60]
        return {"exc": type(e).__name__, "msg": msg[:120], "lines": lines, "log": list(log)}
    finally:
        signal.setitimer(signal.ITIMER_REAL, 0)
        signal.signal(signal.SIGALRM, old_h)


def worker(payload):
    seed, n, opts = payload
    rng = random.Random(seed)
    out = {"ops": 0, "corr": [], "hist": {}, "samples": [], "oracles": {}}
    o = out["oracles"].setdefault("C09", {"n": 0, "nontrivial": 0, "viol": [], "known": {}})

    def known(key, witness):
        e = o["known"].setdefault(key, {"count": 0, "witness": witness})
        e["count"] += 1

    for _ in range(n):
        allow = {"call_next", "kw", "starred"}
        r = rng.random()
        if r < 0.15:
            allow.add("comp_iter")
        elif r < 0.25:
            allow.add("dstar")
        elif r < 0.45:
            allow.add("selfname")
        elif r < 0.52:
            allow.add("cn_starred")
        g = G(rng, allow)
        lines = g.body()
        # 0: a plain function; 1: made by a factory (one closure variable); 2: made by a factory in which `recurse` goes
        # under a local alias — the alias is a closure variable that the rewrite removes, between two that stay
        closure = rng.choice([0, 0, 0, 0, 0, 0, 1, 1, 2]) if "selfname" not in g.used else rng.choice([0, 0, 1])
        kwdefault = "kw" in g.used or "dstar" in g.used or rng.random() < 0.3
        for f in g.used:
            out["hist"][f] = out["hist"].get(f, 0) + 1
        wit = {"kind": "rewrite", "lines": lines, "closure": closure, "kwdefault": kwdefault, "seed_args": None}
        # the generated body must be valid Python as written (e.g. the user's own walrus inside the iterable of a
        # comprehension is not): programs Python itself rejects are not the rewriter's business
        try:
            compile("def _probe(x, y=3, *, tag=0, w=0):\n" + "\n".join("    " + l for l in lines) + "\n", "<probe>", "exec")
        except SyntaxError:
            out["hist"]["generated body rejected by Python itself"] = out["hist"].get("generated body rejected by Python itself", 0) + 1
            continue
        try:
            ov, ref, log, src, fname, rname = build(rng, lines, g.used, closure, kwdefault)
        except Exception as e:  # noqa
            o["viol"].append({"law": "harness could not build the scenario", "error": repr(e)[:200], **wit})
            continue
        args_list = [([1, "a", (1, 2)],), ([],), ([2, [3, "b"]], 7), ([None],)]
        for args in args_list:
            kwargs = {"tag": 5} if (kwdefault and rng.random() < 0.4) else {}
            out["ops"] += 1
            o["n"] += 1
            if len(g.used) > 1:
                o["nontrivial"] += 1
            del log_bad[-1][:]
            got = outcome(ov, args, kwargs, log, fname)
            o1 = out["oracles"].setdefault("C01", {"n": 0, "nontrivial": 0, "viol": [], "known": {}})
            o1["n"] += 1
            o1["nontrivial"] += 1 if len(g.used) > 1 else 0
            if log_bad[-1]:
                o1["viol"].append({"law": "method entered with an argument its annotation excludes", "entries": list(log_bad[-1]), **wit, "args": repr(args), "src": src})
            want = outcome(ref, args, kwargs, log, rname)
            # C08: a body that delegates through recurse / the function's own name only: the reference IS "calling the
            # overloaded function with those arguments"
            o8 = None
            if (g.used & {"recurse", "F"}) and "call_next" not in g.used:
                o8 = out["oracles"].setdefault("C08", {"n": 0, "nontrivial": 0, "viol": [], "known": {}})
                o8["n"] += 1
                o8["nontrivial"] += 1
            if got != want:
                w2 = {**wit, "args": repr(args), "kwargs": kwargs, "got": got, "want": want, "src": src}
                if o8 is not None and not (got.get("exc") == "SyntaxError" and "comp_iter" in g.used):
                    # C08 sees every difference of a recurse / own-name body, whatever class C09 files it under
                    # (except the listed finding D10, which refuses the definition before any delegation happens)
                    o8["viol"].append({"law": "recurse(args) does not behave like calling the overloaded function with those arguments", **w2})
                    o8 = None
                if got.get("exc") == "SyntaxError" and "comp_iter" in g.used:
                    known("D10:call-inside-comprehension-iterable", w2)
                elif "dstar" in g.used:
                    known("D11:double-starred-arguments", w2)
                elif {"recurse", "F"} <= g.used or ("F" in g.used and "call_next" in g.used and got.get("exc") == "UsageError"):
                    known("D12:recurse-and-self-name-in-one-body", w2)
                elif "cn_starred" in g.used:
                    known("D25:call_next-with-starred-arguments", w2)
                else:
                    o["viol"].append({"law": "rewritten method behaves differently from its source", **w2})
                    if o8 is not None:
                        o8["viol"].append({"law": "recurse(args) does not behave like calling the overloaded function with those arguments", **w2})
                break
        if len(out["samples"]) < 1:
            out["samples"].append({"body": lines, "features": sorted(g.used)})
    return out


if __name__ == "__main__":
    import json

    seed = int(sys.argv[1]) if len(sys.argv) > 1 else 0
    n = int(sys.argv[2]) if len(sys.argv) > 2 else 100
    r = worker((seed, n, {}))
    o = r["oracles"]["C09"]
    print(r["ops"], r["hist"])
    print(o["n"], o["nontrivial"], len(o["viol"]), {k: v["count"] for k, v in o["known"].items()})
    for v in o["viol"][:4]:
        print(json.dumps({k: v[k] for k in v if k != "src"}, default=str)[:1200])
        print(v.get("src", ""))
