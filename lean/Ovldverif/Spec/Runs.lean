import Ovldverif.Model.Fn
/-! Histories: sequences of table lookups / function calls, and what "freshly built" means. -/
set_option autoImplicit false
namespace Ovld

/-- a table on which the given entries have been registered and nothing has been looked up yet -/
def MMap.fresh (ms : List Meth) : MMap := ms.foldl MMap.register {}

def MMap.runLookups (cfg : Cfg) (mm : MMap) : List (CKey Key) → MMap
  | [] => mm
  | ck :: rest => MMap.runLookups cfg (mm.lookup cfg ck).1 rest

/-- registered handlers are distinct objects with distinct code objects (CPython compares code objects by
    value: see `codeOfHandle`) -/
structure DistinctHandlers (ms : List Meth) : Prop where
  ids : (ms.map (·.id)).Nodup
  codes : (ms.map (·.code)).Nodup

/-- a function object on which the given definitions are registered and which has never been called -/
def Fn.fresh (ds : List (Def × Int)) : Fn := { defns := ds }

def Fn.runCalls (cfg : Cfg) (fn : Fn) : List Call → Fn
  | [] => fn
  | c :: rest => Fn.runCalls cfg (fn.call cfg c).1 rest

def Fn.outcome (r : Fn × Outcome × Trace × Nat) : Outcome := r.2.1
def Fn.trace (r : Fn × Outcome × Trace × Nat) : Trace := r.2.2.1
def Fn.nres (r : Fn × Outcome × Trace × Nat) : Nat := r.2.2.2

end Ovld
