import Ovldverif.Model.Rank
/-!
# Ranking core of C02: the first rank is a singleton `[w]` iff `w` beats every other candidate

Port of `design_prototypes/C02core.lean` to the concrete `Cand` of `Model/Rank.lean`.  A candidate's
specificity vector is the list of levels of its declared types; `tys c` gives those declared types (one per
slot of the key), `lvl` the level function (per slot, so `T` is instantiated with `Slot × Ty`), `le` the
"same as or subclass of" relation.
-/
set_option autoImplicit false
namespace Ovld

variable {T : Type} [DecidableEq T]

def all2 (r : T → T → Bool) : List T → List T → Bool
  | a :: as, b :: bs => r a b && all2 r as bs
  | _, _ => true

/-! ### list lemmas -/

theorem allGe_sum {a b : List Nat} (h : a.length = b.length) (hge : allGe a b = true) : a.sum ≥ b.sum := by
  induction a generalizing b with
  | nil => cases b <;> simp_all
  | cons x xs ih =>
    cases b with
    | nil => simp at h
    | cons y ys =>
      simp [allGe] at hge
      have := ih (by simpa using h) hge.2
      simp; omega

theorem allGe_sum_lt {a b : List Nat} (h : a.length = b.length) (hge : allGe a b = true) (hne : a ≠ b) :
    a.sum > b.sum := by
  induction a generalizing b with
  | nil => cases b <;> simp_all
  | cons x xs ih =>
    cases b with
    | nil => simp at h
    | cons y ys =>
      simp [allGe] at hge
      have hl : xs.length = ys.length := by simpa using h
      by_cases hxy : x = y
      · subst hxy
        have : xs ≠ ys := by intro e; apply hne; rw [e]
        have := ih hl hge.2 this
        simp; omega
      · have := allGe_sum hl hge.2
        simp; omega

/-- under comparability + monotone levels, level-wise ≥ is the type order, slot by slot -/
theorem allGe_iff_all2 (le : T → T → Bool) (lvl : T → Nat)
    (mono : ∀ a b, le a b = true → a ≠ b → lvl a > lvl b)
    (refl : ∀ a, le a a = true)
    : ∀ (xs ys : List T), xs.length = ys.length →
      (∀ i (h : i < xs.length) (h' : i < ys.length), le xs[i] ys[i] = true ∨ le ys[i] xs[i] = true) →
      (allGe (xs.map lvl) (ys.map lvl) = true ↔ all2 le xs ys = true) := by
  intro xs
  induction xs with
  | nil => intro ys h _; cases ys <;> simp_all [allGe, all2]
  | cons x xs ih =>
    intro ys h hc
    cases ys with
    | nil => simp at h
    | cons y ys =>
      have hl : xs.length = ys.length := by simpa using h
      have hc' : ∀ i (h : i < xs.length) (h' : i < ys.length), le xs[i] ys[i] = true ∨ le ys[i] xs[i] = true := by
        intro i h1 h2
        have := hc (i+1) (by simp; omega) (by simp; omega)
        simpa using this
      have h0 := hc 0 (by simp) (by simp)
      simp only [List.getElem_cons_zero] at h0
      have := ih ys hl hc'
      simp only [List.map_cons, allGe, all2, Bool.and_eq_true, decide_eq_true_eq]
      rw [this]
      constructor
      · rintro ⟨hge, r⟩
        refine ⟨?_, r⟩
        rcases h0 with h0 | h0
        · exact h0
        · by_cases e : y = x
          · subst e; exact refl _
          · have := mono y x h0 e; omega
      · rintro ⟨hle, r⟩
        refine ⟨?_, r⟩
        by_cases e : x = y
        · subst e; exact Nat.le_refl _
        · have := mono x y hle e; omega

theorem map_lvl_eq_iff (le : T → T → Bool) (lvl : T → Nat)
    (mono : ∀ a b, le a b = true → a ≠ b → lvl a > lvl b)
    : ∀ (xs ys : List T), xs.length = ys.length →
      (∀ i (h : i < xs.length) (h' : i < ys.length), le xs[i] ys[i] = true ∨ le ys[i] xs[i] = true) →
      (xs.map lvl = ys.map lvl ↔ xs = ys) := by
  intro xs
  induction xs with
  | nil => intro ys h _; cases ys <;> simp_all
  | cons x xs ih =>
    intro ys h hc
    cases ys with
    | nil => simp at h
    | cons y ys =>
      have hl : xs.length = ys.length := by simpa using h
      have hc' : ∀ i (h : i < xs.length) (h' : i < ys.length), le xs[i] ys[i] = true ∨ le ys[i] xs[i] = true := by
        intro i h1 h2
        have := hc (i+1) (by simp; omega) (by simp; omega)
        simpa using this
      have h0 := hc 0 (by simp) (by simp)
      simp only [List.getElem_cons_zero] at h0
      have := ih ys hl hc'
      simp only [List.map_cons, List.cons.injEq]
      rw [this]
      constructor
      · rintro ⟨hl, r⟩
        refine ⟨?_, r⟩
        by_cases e : x = y
        · exact e
        · rcases h0 with h0 | h0
          · have := mono x y h0 e; omega
          · have := mono y x h0 (fun e' => e e'.symm); omega
      · rintro ⟨e, r⟩; exact ⟨by rw [e], r⟩

/-! ### sort-key lemmas -/

def keyGt (a b : SortKey) : Prop :=
  a.1 > b.1 ∨ (a.1 = b.1 ∧ (a.2.1 > b.2.1 ∨ (a.2.1 = b.2.1 ∧ a.2.2 > b.2.2)))

theorem keyGe_trans (a b c : SortKey) : keyGe a b = true → keyGe b c = true → keyGe a c = true := by
  simp [keyGe]; omega
theorem keyGe_total (a b : SortKey) : (keyGe a b || keyGe b a) = true := by
  simp [keyGe]; omega
theorem keyGt_not_ge (a b : SortKey) : keyGt a b → keyGe b a = false := by
  simp [keyGe, keyGt]; omega
theorem keyGe_prio (a b : SortKey) : keyGe a b = true → a.1 ≥ b.1 := by
  simp [keyGe]; omega

theorem sort_perm (cs : List Cand) : (sortCands cs).Perm cs := List.mergeSort_perm _ _

theorem sort_head_max (cs : List Cand) (h : Cand) (rest : List Cand)
    (hs : sortCands cs = h :: rest) : ∀ c ∈ rest, keyGe h.key c.key = true := by
  have := List.pairwise_mergeSort (le := fun a b : Cand => keyGe a.key b.key)
    (fun a b c => keyGe_trans _ _ _) (fun a b => keyGe_total _ _) cs
  unfold sortCands at hs
  rw [hs] at this
  exact (List.pairwise_cons.mp this).1

section
variable (le : T → T → Bool) (lvl : T → Nat) (tys : Cand → List T) (sig : Cand → Nat)

/-- the documented rule on candidates: higher priority; or equal priority and (pointwise same-or-subclass
    and different) or (identical signature and more recent) -/
def beatsC (c c' : Cand) : Prop :=
  c.prio > c'.prio ∨ (c.prio = c'.prio ∧
    ((tys c ≠ tys c' ∧ all2 le (tys c) (tys c') = true) ∨ (tys c = tys c' ∧ sig c = sig c' ∧ c.tb > c'.tb)))

structure RankHyp (n : Nat) (cs : List Cand) : Prop where
  spec : ∀ c ∈ cs, c.spec = (tys c).map lvl
  len : ∀ c ∈ cs, (tys c).length = n
  mono : ∀ a b, le a b = true → a ≠ b → lvl a > lvl b
  comp : ∀ c ∈ cs, ∀ c' ∈ cs, ∀ i (h : i < (tys c).length) (h' : i < (tys c').length),
            le ((tys c)[i]) ((tys c')[i]) = true ∨ le ((tys c')[i]) ((tys c)[i]) = true
  sigTie : ∀ c ∈ cs, ∀ c' ∈ cs, tys c = tys c' → c.prio = c'.prio → sig c ≠ sig c' → c.tb = c'.tb

/-- first rank produced by `ranks` -/
def firstGroup (cs : List Cand) : List Cand :=
  match sortCands cs with
  | [] => []
  | h :: rest => h :: rest.filter (fun c => !dominates h c)

theorem ranks_head (cs : List Cand) : (ranks cs).head? = (if cs = [] then none else some (firstGroup cs)) := by
  unfold ranks firstGroup
  have perm := sort_perm cs
  match hs : sortCands cs with
  | [] =>
    rw [hs] at perm
    have : cs = [] := List.perm_nil.mp perm.symm
    simp [this, pull]
  | h :: rest =>
    have hne : cs ≠ [] := by
      intro e; rw [hs, e] at perm; exact absurd perm (by simp)
    simp [hne, pull]

/-- `Candidate.dominates` coincides with the documented rule for a candidate of no lower priority -/
theorem dominates_iff_beats (refl : ∀ a, le a a = true) {n : Nat} {cs : List Cand}
    (H : RankHyp le lvl tys sig n cs) (h c : Cand) (hh : h ∈ cs) (hc : c ∈ cs) (hp : h.prio ≥ c.prio) :
    dominates h c = true ↔ beatsC le tys sig h c := by
  have hlen : (tys h).length = (tys c).length := by rw [H.len h hh, H.len c hc]
  have hcomp := H.comp h hh c hc
  have e1 := map_lvl_eq_iff le lvl H.mono (tys h) (tys c) hlen hcomp
  have e2 := allGe_iff_all2 le lvl H.mono refl (tys h) (tys c) hlen hcomp
  unfold dominates beatsC
  rw [H.spec h hh, H.spec c hc]
  by_cases p : h.prio > c.prio
  · simp [p]
  · have pe : h.prio = c.prio := by omega
    rw [if_neg p]
    by_cases s : List.map lvl (tys h) = List.map lvl (tys c)
    · have te : tys h = tys c := e1.mp s
      rw [if_neg (by simpa using s)]
      simp only [decide_eq_true_eq]
      constructor
      · intro t
        refine Or.inr ⟨pe, Or.inr ⟨te, ?_, t⟩⟩
        by_cases ne : sig h = sig c
        · exact ne
        · have := H.sigTie h hh c hc te pe ne
          omega
      · rintro (t | ⟨_, (⟨ne, _⟩ | ⟨_, _, t⟩)⟩)
        · exact absurd t p
        · exact absurd te ne
        · exact t
    · have tne : tys h ≠ tys c := fun e => s (e1.mpr e)
      rw [if_pos (by simpa using s)]
      constructor
      · intro t; exact Or.inr ⟨pe, Or.inl ⟨tne, e2.mp t⟩⟩
      · rintro (t | ⟨_, (⟨_, t⟩ | ⟨te, _⟩)⟩)
        · exact absurd t p
        · exact e2.mpr t
        · exact absurd te tne

theorem beats_keyGt (refl : ∀ a, le a a = true) {n : Nat} {cs : List Cand}
    (H : RankHyp le lvl tys sig n cs)
    (h c : Cand) (hh : h ∈ cs) (hc : c ∈ cs) (hb : beatsC le tys sig h c) : keyGt h.key c.key := by
  have hlen : (tys h).length = (tys c).length := by rw [H.len h hh, H.len c hc]
  have hcomp := H.comp h hh c hc
  unfold keyGt Cand.key
  rw [H.spec h hh, H.spec c hc]
  rcases hb with p | ⟨pe, (⟨tne, a2⟩ | ⟨te, _, t⟩)⟩
  · exact Or.inl p
  · refine Or.inr ⟨pe, Or.inl ?_⟩
    have ge := (allGe_iff_all2 le lvl H.mono refl (tys h) (tys c) hlen hcomp).mpr a2
    have ne : (tys h).map lvl ≠ (tys c).map lvl :=
      fun e => tne ((map_lvl_eq_iff le lvl H.mono (tys h) (tys c) hlen hcomp).mp e)
    exact allGe_sum_lt (by simp [hlen]) ge ne
  · refine Or.inr ⟨pe, Or.inr ⟨by rw [te], t⟩⟩

/-- direction 1: a unique winner under the documented rule is exactly the first rank -/
theorem firstGroup_of_winner (refl : ∀ a, le a a = true) {n : Nat} {cs : List Cand}
    (H : RankHyp le lvl tys sig n cs) (nd : cs.Nodup) (w : Cand) (hw : w ∈ cs)
    (win : ∀ c ∈ cs, c ≠ w → beatsC le tys sig w c) :
    firstGroup cs = [w] := by
  unfold firstGroup
  have perm := sort_perm cs
  match hs : sortCands cs with
  | [] =>
    have : w ∈ sortCands cs := perm.mem_iff.mpr hw
    rw [hs] at this; cases this
  | h :: rest =>
    have hmem : ∀ c, c ∈ h :: rest ↔ c ∈ cs := fun c => by rw [← hs]; exact perm.mem_iff
    have ndS : (h :: rest).Nodup := by rw [← hs]; exact perm.nodup_iff.mpr nd
    have hh : h ∈ cs := (hmem h).mp (List.mem_cons_self ..)
    have hw' : h = w := by
      by_cases e : h = w
      · exact e
      · exfalso
        have wIn : w ∈ rest := by
          have := (hmem w).mpr hw
          rcases List.mem_cons.mp this with e' | e'
          · exact absurd e'.symm e
          · exact e'
        have ge := sort_head_max cs h rest hs w wIn
        have gt := beats_keyGt le lvl tys sig refl H w h hw hh (win h hh e)
        have := keyGt_not_ge _ _ gt
        rw [ge] at this; cases this
    subst hw'
    have : rest.filter (fun c => !dominates h c) = [] := by
      rw [List.filter_eq_nil_iff]
      intro c hc
      have hcs : c ∈ cs := (hmem c).mp (List.mem_cons_of_mem _ hc)
      have cne : c ≠ h := by
        intro e; subst e
        exact (List.nodup_cons.mp ndS).1 hc
      have b := win c hcs cne
      have pr : h.prio ≥ c.prio := by
        rcases b with p | ⟨pe, _⟩ <;> omega
      have := (dominates_iff_beats le lvl tys sig refl H h c hh hcs pr).mpr b
      simp [this]
    simp [this]

/-- direction 2: a singleton first rank is a candidate that beats every other candidate -/
theorem winner_of_firstGroup (refl : ∀ a, le a a = true) {n : Nat} {cs : List Cand}
    (H : RankHyp le lvl tys sig n cs) (h : Cand) (hg : firstGroup cs = [h]) :
    h ∈ cs ∧ ∀ c ∈ cs, c ≠ h → beatsC le tys sig h c := by
  unfold firstGroup at hg
  have perm := sort_perm cs
  match hs : sortCands cs with
  | [] => rw [hs] at hg; cases hg
  | h' :: rest =>
    rw [hs] at hg
    simp only [List.cons.injEq] at hg
    obtain ⟨e, hf⟩ := hg
    subst e
    have hmem : ∀ c, c ∈ h' :: rest ↔ c ∈ cs := fun c => by rw [← hs]; exact perm.mem_iff
    have hh : h' ∈ cs := (hmem h').mp (List.mem_cons_self ..)
    refine ⟨hh, ?_⟩
    intro c hc cne
    have cIn : c ∈ rest := by
      rcases List.mem_cons.mp ((hmem c).mpr hc) with e | e
      · exact absurd e cne
      · exact e
    have dom : dominates h' c = true := by
      rw [List.filter_eq_nil_iff] at hf
      have := hf c cIn
      simpa using this
    have ge := sort_head_max cs h' rest hs c cIn
    have pr : h'.prio ≥ c.prio := keyGe_prio _ _ ge
    exact (dominates_iff_beats le lvl tys sig refl H h' c hh hc pr).mp dom

end
end Ovld
