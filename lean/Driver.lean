import Ovldverif.Model.Json
/-! Line-protocol driver: one JSON scenario per input line, one JSON result per output line. -/
open Lean Ovld

def runA (j : Json) : Except String Json := do
  let H ← hierOfJson (← jField j "hier")
  let ts ← (← jArr (← jField j "types")).toList.mapM tyOfJson
  let ord := ts.map (fun a => String.join (ts.map (fun b => (typeorder H a b).code)))
  let sub := ts.map (fun a => String.join (ts.map (fun b => if subclasscheck H a b then "1" else "0")))
  return Json.mkObj [("ord", toJson ord), ("sub", toJson sub)]

def runLine (line : String) : String :=
  match Json.parse line with
  | .error e => (Json.mkObj [("error", Json.str s!"parse: {e}")]).compress
  | .ok j =>
    let r : Except String Json := do
      let layer ← jStr (← jField j "layer")
      match layer with
      | "A" => runA j
      | _ => throw s!"unknown layer {layer}"
    match r with
    | .ok v => v.compress
    | .error e => (Json.mkObj [("error", Json.str e)]).compress

partial def loop (h : IO.FS.Stream) (out : IO.FS.Stream) : IO Unit := do
  let line ← h.getLine
  if line.isEmpty then return ()
  let t := line.trimAscii.toString
  if !t.isEmpty then
    out.putStrLn (runLine t)
  loop h out

def main : IO Unit := do
  let out ← IO.getStdout
  loop (← IO.getStdin) out
  out.flush
