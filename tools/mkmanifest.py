"""Regenerate MANIFEST.json from the table below (development-time helper)."""
import json
props = [json.loads(l) for l in open('/verif/properties.jsonl')]
CLAIMED = {
 "C12": dict(
   text="Proof (Lean 4): typeorder of the model is reflexive, coincides with subclassing on classes (transitive there), puts a parametrised generic below its origin, a union above / an intersection below each member, a value-dependent type below its bound, and is mirror-symmetric on the fragment symFrag (never two different hook designs facing each other, recursively) for all hierarchies and all types, unbounded nesting (C12_refl, C12_cls, C12_cls_trans, C12_generic_origin, C12_union_member, C12_inter_member, C12_lit_bound, C12_dep_bound, C12_mirror_one_hook, C12_mirror_partial; fuel_irrelevant shows the model's fuel never runs out). The model is tied to /repo by correspondence layer A (every ordered pair of generated type closures on the real mro.typeorder / subclasscheck vs the model) on every run, plus the laws evaluated directly on the real code. Outside symFrag the code is NOT mirror-symmetric (findings D3, D22: listed per pair of hook kinds, each with a replayed witness); there the model must still predict the real answer exactly.",
   note="Partial: mirror symmetry is proved on symFrag only; its complement is exactly the listed known-finding classes. Assumes Hier.WF (issubclass reflexive/transitive/below object; checked on the live classes of every scenario). Trusted: Lean kernel, the hand-written model + correspondence harness, CPython issubclass/typing modelled as tables.",
   technique="Lean 4 theorems over a hand-written model + differential correspondence (typeorder/subclasscheck on live objects)", ref="7/C12"),
 "C13": dict(
   text="Proof (Lean 4): for every non-value-dependent type built from classes, unions, intersections, Exactly, StrictSubclass, HasMethod and class predicates and every class c, the model's subclasscheck(c, T) equals the documented membership mem c T (C13_mem, by induction with unbounded nesting); the test is reflexive, equals issubclass on classes (hence transitive), and is transitive through a class on the down-closed fragment (C13_trans_partial); it cannot be transitive through Exactly (C13_trans_exactly_counterexample, kernel-checked witness; finding D17). Tied to /repo by correspondence layer A and by evaluating mem (computed by the Lean driver) against the real subclasscheck for every class x type of every scenario.",
   note="Partial: transitivity only on the down-closed fragment (D17 findings listed: Exactly, HasMethod with virtual subclasses). Generic covariance is checked by the oracle and the correspondence, not by a separate theorem. Assumes Hier.WF (+ antisymmetry for StrictSubclass), checked per scenario.",
   technique="Lean 4 theorems over a hand-written model + differential correspondence", ref="7/C13"),
}
checks = []
for pid, c in CLAIMED.items():
    checks.append({
      "property_id": pid,
      "quick_cmd": f"./check {pid} --tier quick",
      "thorough_cmd": f"./check {pid} --tier thorough",
      "evidence_file": f"evidence/{pid}.json",
      "replay_cmd_template": f"./check {pid} --replay {{path}}",
      "engine": "lean-model+correspondence",
      "level_claimed": {"category": "proof", "text": c["text"], "design_ref": c["ref"]},
      "level_note": c["note"],
      "technique": c["technique"],
    })
m = {
 "version": 1,
 "setup_cmd": "./setup.sh",
 "hooks": {"guard": "OVLD_VERIF", "enable": "no source hooks in /repo: the harness rebinds ovld.typemap.set (iteration order) and uses sys.settrace from outside", "baseline_off_cmd": "cd /repo && /venv/bin/python -m pytest -q -p no:cacheprovider --timeout=900", "source_commits": [], "add_only": True},
 "engines": [{"name": "lean-model+correspondence", "path": "lean/ (model, specs, theorems, driver) + harness/ (generators, adapters, oracles) + check", "serves_properties": sorted(CLAIMED), "kind_free_text": "hand-written Lean 4 model with machine-checked theorems; differential correspondence against /repo's working tree on every run"}],
 "checks": checks,
 "not_applicable": [{"property_id": p["id"], "reason": "check not built yet (work in progress, see DESIGN.md Appendix B); not claimed"} for p in props if p["id"] not in CLAIMED],
 "notes": "Exit 2 = the check itself is broken (Lean build / audit failure, driver error), never a violation.",
}
json.dump(m, open('/verif/MANIFEST.json', 'w'), indent=1)
print(len(checks), "checks")
