import Ovldverif.Props.C11
/-!
# Lemmas for C11 on product types and `|` / `&` combinations
-/
set_option autoImplicit false
namespace Ovld

/-- `generate_checking_code(t)` evaluated as a whole (the local `whole` of `memberCheck`), nested members with
    fuel `f` -/
def wholeOf (W : DWorld) (f : Nat) (v : DVal) : Ty → Tri
  | .lit keys _ => Tri.ofBool (keys.contains v.eq)
  | .prod ps _ =>
    if v.kind == .plain then .raises
    else if v.elems.length != ps.length then .no
    else if v.kind != .seq then (if ps.isEmpty then .yes else .raises)
    else instOf.allTri ((ps.zip v.elems).map (fun p => isinstanceOf W p.1 p.2))
  | .fdep fn ps _ => W.chk fn ps v.vid
  | .union ms => instOf.anyTri (ms.map (fun m => memberCheck W f m v))
  | .inter ms => instOf.allTri (ms.map (fun m => memberCheck W f m v))
  | .gen o a => Tri.ofBool (subclasscheck W.H (.cls v.cls) (.gen o a))
  | t => isinstanceOf W t v

theorem memberCheck_succ (W : DWorld) (f : Nat) (t : Ty) (v : DVal) :
    memberCheck W (f + 1) t v =
      (match t with
       | .lit _ b | .prod _ b | .fdep _ _ b =>
         if b == .cls 0 then wholeOf W f v t
         else Tri.andThen (wholeOf W f v b) (fun _ => wholeOf W f v t)
       | t => wholeOf W f v t) := by
  cases t with
  | lit k b => cases b <;> rfl
  | prod k b => cases b <;> rfl
  | fdep fn k b => cases b <;> rfl
  | _ => rfl

/-! ## one-step unfoldings of `isinstance` on combinations -/

theorem isinstanceOf_union (W : DWorld) (ms : List Ty) (v : DVal) :
    isinstanceOf W (.union ms) v = instOf.anyTri (ms.map (fun m => isinstanceOf W m v)) := by
  show instOf W ((Ty.union ms).size + v.size + 1) (.union ms) v = _
  simp only [instOf]
  congr 1
  apply List.map_congr_left
  intro m hm
  have := Ty.mem_sizeL hm
  exact instOf_eq_isinstanceOf W _ m v (by simp only [Ty.size]; omega)

theorem isinstanceOf_inter (W : DWorld) (ms : List Ty) (v : DVal) :
    isinstanceOf W (.inter ms) v = instOf.allTri (ms.map (fun m => isinstanceOf W m v)) := by
  show instOf W ((Ty.inter ms).size + v.size + 1) (.inter ms) v = _
  simp only [instOf]
  congr 1
  apply List.map_congr_left
  intro m hm
  have := Ty.mem_sizeL hm
  exact instOf_eq_isinstanceOf W _ m v (by simp only [Ty.size]; omega)

/-- `ProductType.__instancecheck__`: the bound, then `isinstance(value, tuple)`, the length, the elements -/
theorem isinstanceOf_prod (W : DWorld) (ps : List Ty) (b : Ty) (v : DVal) :
    isinstanceOf W (.prod ps b) v =
      (match isinstanceOf W b v with
       | .yes =>
         if v.kind != .seq then .no
         else if v.elems.length != ps.length then .no
         else instOf.allTri ((ps.zip v.elems).map (fun p => isinstanceOf W p.1 p.2))
       | r => r) := by
  rw [← instOf_eq_isinstanceOf W ((Ty.prod ps b).size + v.size) b v (by simp only [Ty.size]; omega)]
  have hel : (ps.zip v.elems).map (fun p => instOf W ((Ty.prod ps b).size + v.size) p.1 p.2)
      = (ps.zip v.elems).map (fun p => isinstanceOf W p.1 p.2) := by
    apply List.map_congr_left
    intro p hp
    have hm : p.1 ∈ ps := (List.of_mem_zip hp).1
    have := Ty.mem_sizeL hm
    exact instOf_eq_isinstanceOf W _ p.1 p.2 (by simp only [Ty.size]; omega)
  show instOf W ((Ty.prod ps b).size + v.size + 1) (.prod ps b) v = _
  simp only [instOf, hel]
  generalize instOf W _ b v = r
  cases r <;> rfl

/-! ## evaluation of `and` / `or` chains of atoms -/

theorem splitOr_and_atoms (v : DVal) : ∀ (as : List CAtom),
    splitOr (withArg v (joinToks .and (as.map (fun a => [Tok.atom a])))) = [as.map (fun a => (a, v))]
  | [] => rfl
  | [a] => rfl
  | a :: b :: r => by
    have ih := splitOr_and_atoms v (b :: r)
    simp only [List.map_cons, joinToks, List.cons_append, List.nil_append, withArg, splitOr] at ih ⊢
    rw [ih]

theorem splitOr_or_atoms (v : DVal) : ∀ (a : CAtom) (as : List CAtom),
    splitOr (withArg v (joinToks .or ((a :: as).map (fun a => [Tok.atom a])))) =
      (a :: as).map (fun a => [(a, v)])
  | a, [] => rfl
  | a, b :: r => by
    have ih := splitOr_or_atoms v b r
    simp only [List.map_cons, joinToks, List.cons_append, List.nil_append, withArg, splitOr] at ih ⊢
    rw [ih]

theorem evalAnd_atoms (W : DWorld) (v : DVal) : ∀ (as : List CAtom),
    evalAnd W (as.map (fun a => (a, v))) = instOf.allTri (as.map (fun a => evalAtom W a v))
  | [] => rfl
  | a :: r => by
    simp only [List.map_cons, evalAnd]
    rw [evalAnd_atoms W v r]
    cases evalAtom W a v <;> rfl

theorem evalOr_single (W : DWorld) (g : List (CAtom × DVal)) : evalOr W [g] = evalAnd W g := by
  simp only [evalOr]
  cases evalAnd W g <;> rfl

theorem evalOr_atoms (W : DWorld) (v : DVal) : ∀ (as : List CAtom),
    evalOr W (as.map (fun a => [(a, v)])) = instOf.anyTri (as.map (fun a => evalAtom W a v))
  | [] => rfl
  | a :: r => by
    simp only [List.map_cons, evalOr, evalAnd]
    rw [evalOr_atoms W v r]
    cases evalAtom W a v <;> rfl

/-- the generated check of a Union: its members' guarded code joined by `or`.  The empty join is the empty
    string; the model evaluates it to `yes` -/
theorem genCheck_union (W : DWorld) (m : Ty) (ms : List Ty) (v : DVal) :
    genCheck W (.union (m :: ms)) v =
      instOf.anyTri ((m :: ms).map (fun m => memberCheck W (m.size + 1) m v)) := by
  unfold genCheck
  have : toks ((Ty.union (m :: ms)).size + 1) (.union (m :: ms)) =
      joinToks .or (((m :: ms).map CAtom.member).map (fun a => [Tok.atom a])) := by
    simp only [toks, List.map_map]; rfl
  rw [this, List.map_cons, splitOr_or_atoms, ← List.map_cons, evalOr_atoms, List.map_map]
  rfl

theorem genCheck_inter (W : DWorld) (ms : List Ty) (v : DVal) :
    genCheck W (.inter ms) v = instOf.allTri (ms.map (fun m => memberCheck W (m.size + 1) m v)) := by
  unfold genCheck
  have : toks ((Ty.inter ms).size + 1) (.inter ms) =
      joinToks .and ((ms.map CAtom.member).map (fun a => [Tok.atom a])) := by
    simp only [toks, List.map_map]; rfl
  rw [this, splitOr_and_atoms, evalOr_single, evalAnd_atoms, List.map_map]
  rfl

/-- the generated check of `tuple[T1, ..., Tn]`: `len(arg) == n and isinstance(arg[0], T1) and ...` -/
theorem genCheck_prod (W : DWorld) (ps : List Ty) (b : Ty) (v : DVal) :
    genCheck W (.prod ps b) v =
      instOf.allTri (evalAtom W (.lenEq ps.length) v ::
        ps.zipIdx.map (fun pi => evalAtom W (.elemInst pi.2 pi.1) v)) := by
  unfold genCheck
  have : toks ((Ty.prod ps b).size + 1) (.prod ps b) =
      joinToks .and ((CAtom.lenEq ps.length :: ps.zipIdx.map (fun pi => CAtom.elemInst pi.2 pi.1)).map
        (fun a => [Tok.atom a])) := by
    simp only [toks, List.map_cons, List.map_map]; rfl
  rw [this, splitOr_and_atoms, evalOr_single, evalAnd_atoms, List.map_cons, List.map_map]
  rfl

/-- indexing `arg[i]` for `i = 0 .. n-1` on a sequence of length `n` walks its elements in order -/
theorem zipIdx_elems {α : Type} (G : Ty → Option DVal → α) : ∀ (ps : List Ty) (es pre : List DVal),
    ps.length = es.length →
    (ps.zipIdx pre.length).map (fun pi => G pi.1 (pre ++ es)[pi.2]?) =
      (ps.zip es).map (fun p => G p.1 (some p.2))
  | [], _, _, _ => rfl
  | p :: ps, [], _, h => by simp at h
  | p :: ps, e :: es, pre, h => by
    have ih := zipIdx_elems G ps es (pre ++ [e]) (by simpa using h)
    simp only [List.length_append, List.length_cons, List.length_nil, List.append_assoc,
      List.cons_append, List.nil_append] at ih
    simp only [List.zipIdx_cons, List.map_cons, List.zip_cons_cons, ih]
    simp

/-! ## guardable types -/

/-- the types for which the guarded, parenthesised member code is `isinstance`, relative to a value `v`:
    * types without `codegen` other than parameterized generics (`isinstance(arg, t)` is emitted);
    * `Literal` / `FuncDependentType` / `tuple[...]` whose bound is itself guardable and not value-dependent at
      its top (the code of a bound is emitted *without* that bound's own guard);
      for `tuple[...]` the bound must accept sequence values only (in Python the bound is `tuple`);
    * unions and intersections of guardable types. -/
inductive Guardable (W : DWorld) (v : DVal) : Ty → Prop
  | cls (c : Nat) : Guardable W v (.cls c)
  | exactly (tag c : Nat) : Guardable W v (.exactly tag c)
  | strict (tag c : Nat) : Guardable W v (.strict tag c)
  | hasm (tag m : Nat) : Guardable W v (.hasm tag m)
  | pred (tag k : Nat) : Guardable W v (.pred tag k)
  | lit (keys : List Nat) (b : Ty) : Guardable W v b → b.isDepTop = false → Guardable W v (.lit keys b)
  | fdep (fn : Nat) (ps : List (Option Nat)) (b : Ty) : Guardable W v b → b.isDepTop = false →
      Guardable W v (.fdep fn ps b)
  | prod (ps : List Ty) (b : Ty) : Guardable W v b → b.isDepTop = false →
      (isinstanceOf W b v = .yes → v.kind = .seq) → Guardable W v (.prod ps b)
  | union (ms : List Ty) : (∀ m, m ∈ ms → Guardable W v m) → Guardable W v (.union ms)
  | inter (ms : List Ty) : (∀ m, m ∈ ms → Guardable W v m) → Guardable W v (.inter ms)

/-- the unguarded code of a guardable type that is not value-dependent at its top is `isinstance` -/
theorem wholeOf_nondep (W : DWorld) (v : DVal) (n : Nat)
    (IH : ∀ m, Guardable W v m → m.size ≤ n → memberCheck W (n + 1) m v = isinstanceOf W m v)
    (t : Ty) (g : Guardable W v t) (hnd : t.isDepTop = false) (hs : t.size ≤ n + 1) :
    wholeOf W (n + 1) v t = isinstanceOf W t v := by
  cases g with
  | cls c => rfl
  | exactly tag c => rfl
  | strict tag c => rfl
  | hasm tag m => rfl
  | pred tag k => rfl
  | lit keys b gb hb => simp [Ty.isDepTop] at hnd
  | fdep fn ps b gb hb => simp [Ty.isDepTop] at hnd
  | prod ps b gb hb hq => simp [Ty.isDepTop] at hnd
  | union ms gm =>
    rw [isinstanceOf_union]
    simp only [wholeOf]
    congr 1
    apply List.map_congr_left
    intro m hm
    have := Ty.mem_sizeL hm
    simp only [Ty.size] at hs
    exact IH m (gm m hm) (by omega)
  | inter ms gm =>
    rw [isinstanceOf_inter]
    simp only [wholeOf]
    congr 1
    apply List.map_congr_left
    intro m hm
    have := Ty.mem_sizeL hm
    simp only [Ty.size] at hs
    exact IH m (gm m hm) (by omega)

theorem wholeOf_prod_seq (W : DWorld) (f : Nat) (v : DVal) (ps : List Ty) (b : Ty) (hk : v.kind = .seq) :
    wholeOf W f v (.prod ps b) =
      if v.elems.length != ps.length then .no
      else instOf.allTri ((ps.zip v.elems).map (fun p => isinstanceOf W p.1 p.2)) := by
  simp [wholeOf, hk]

theorem memberCheck_guardable_aux (W : DWorld) (v : DVal) (htop : W.H.sub v.cls 0 = true) :
    ∀ (n : Nat) (t : Ty), Guardable W v t → t.size ≤ n → memberCheck W (n + 1) t v = isinstanceOf W t v := by
  intro n
  induction n with
  | zero => intro t _ hs; have := Ty.size_pos t; omega
  | succ n IH =>
    intro t g hs
    have h0 : isinstanceOf W (.cls 0) v = .yes := by rw [isinstanceOf_cls, htop]; rfl
    rw [memberCheck_succ]
    cases g with
    | cls c => rfl
    | exactly tag c => rfl
    | strict tag c => rfl
    | hasm tag m => rfl
    | pred tag k => rfl
    | union ms gm => exact wholeOf_nondep W v n IH _ (.union ms gm) rfl hs
    | inter ms gm => exact wholeOf_nondep W v n IH _ (.inter ms gm) rfl hs
    | lit keys b gb hb =>
      simp only [Ty.size] at hs
      have hw := wholeOf_nondep W v n IH b gb hb (by omega)
      simp only [hw, isinstanceOf_lit]
      by_cases e : b = .cls 0
      · subst e; simp only [beq_self_eq_true, if_true, h0]; rfl
      · rw [if_neg (by simpa using e)]
        cases isinstanceOf W b v <;> rfl
    | fdep fn ps b gb hb =>
      simp only [Ty.size] at hs
      have hw := wholeOf_nondep W v n IH b gb hb (by omega)
      simp only [hw, isinstanceOf_fdep]
      by_cases e : b = .cls 0
      · subst e; simp only [beq_self_eq_true, if_true, h0]; rfl
      · rw [if_neg (by simpa using e)]
        cases isinstanceOf W b v <;> rfl
    | prod ps b gb hb hq =>
      simp only [Ty.size] at hs
      have hw := wholeOf_nondep W v n IH b gb hb (by omega)
      simp only [hw, isinstanceOf_prod]
      by_cases e : b = .cls 0
      · subst e
        have hk := hq h0
        simp only [beq_self_eq_true, if_true, h0, wholeOf_prod_seq W _ v ps _ hk]
        simp [hk]
      · rw [if_neg (by simpa using e)]
        cases hbv : isinstanceOf W b v
        · have hk := hq hbv
          simp only [Tri.andThen, wholeOf_prod_seq W _ v ps _ hk]
          simp [hk]
        · rfl
        · rfl

end Ovld
