import Ovldverif.Props.C09
import Ovldverif.Model.RewriteStmt
/-!
# C09 for statements — rewriting a whole function body changes nothing except the recurse / call_next call sites

`C09_stmt_preserves`: for every block (function body) whose expressions are well formed and do not mention the
reserved temporaries, and for every fuel, executing the rewritten block `(rwS b 0).1` ends the same way as executing
`b` (normal completion / the same returned value / the same exception / out of fuel at the same point), with the
same sequence of side effects and the same user variables.  Loops re-execute the rewritten call sites with the same
temporaries on every iteration; `finally` blocks run in both versions at the same points.
`rwS_id`: a block without `recurse(...)` / `call_next(...)` calls is returned unchanged, the counter too.

Proof layout: `SimS` is `Sim` of `Props/C09.lean` for block results; `simS_bindE` / `simS_bindO` / `simS_tryFin`
compose simulations along the combinators the model is written with; `pBlock` is the induction over the fuel
(`exec` is structurally recursive on the fuel alone), using `pExpr` at every expression; `rwS_mono` (the counter
never decreases) is what lets the frames of consecutive pieces be glued.
-/
set_option autoImplicit false
namespace Ovld.Rw

/-- `truthy` is the notion of truth of the conditional expression of `eval` -/
theorem eval_ite_truthy (W : World) (c a b : Expr) (ρ : Env) (l : Log) :
    eval W (.ite c a b) ρ l =
      match eval W c ρ l with
      | (.ok v, ρ', l') => if truthy v then eval W a ρ' l' else eval W b ρ' l'
      | (.error e, ρ', l') => (.error e, ρ', l') := by
  simp only [eval]
  generalize eval W c ρ l = o
  obtain ⟨r, ρ', l'⟩ := o
  cases r with
  | error e => rfl
  | ok v =>
    cases v with
    | int x =>
      by_cases hx : x = 0
      · subst hx; rfl
      · have ht : truthy (.int x) = true := by
          unfold truthy
          split
          · rename_i h; injection h with h; exact absurd h hx
          · rfl
        simp only [ht, if_true]
        split
        · rename_i h; injection h with h _; injection h with h; injection h with h; exact absurd h hx
        · rename_i h; injection h with h1 h2; injection h2 with h2 h3; subst h2; subst h3; rfl
        · rename_i h1 h2; exact absurd rfl (h2 _ _ _)
    | _ => rfl

/-- the simulation relation between a run of the original and of the rewritten block -/
structure SimS (k k' : Nat) (ρ₂ : Env) (o o₂ : Res) : Prop where
  res : o₂.1 = o.1
  log : o₂.2.2 = o.2.2
  agree : Agree o.2.1 o₂.2.1
  frame : Frame k k' ρ₂ o₂.2.1

theorem Frame.comp {k k1 a k2 : Nat} {ρ0 ρ1 ρ2 : Env} (h1 : Frame k k1 ρ0 ρ1) (h2 : Frame a k2 ρ1 ρ2)
    (hka : k ≤ a) (h12 : k1 ≤ k2) : Frame k k2 ρ0 ρ2 := by
  intro j s hj
  rw [h2 j s (by omega), h1 j s (by omega)]

theorem Frame.ofSetUser {a b : Nat} {ρ0 ρ1 : Env} {x : String} {v : Val}
    (h : Frame a b (setVar ρ0 (.user x) v) ρ1) : Frame a b ρ0 ρ1 := by
  intro j s hj
  rw [h j s hj]
  have : Name.tmp j s ≠ Name.user x := by intro e; cases e
  simp only [setVar, this, if_false]

theorem SimS.widen {a b a' b' : Nat} {ρ₂ : Env} {o o₂ : Res} (h : SimS a b ρ₂ o o₂) (ha : a' ≤ a) (hb : b ≤ b') :
    SimS a' b' ρ₂ o o₂ :=
  ⟨h.res, h.log, h.agree, h.frame.widen ha hb⟩

/-- an expression, then a continuation that is simulated from every pair of agreeing environments -/
theorem simS_bindE {W : World} {e : Expr} (he : PExpr W e) {k a k2 : Nat} {ρ ρ₂ : Env} {l : Log}
    {K K₂ : Val → Env → Log → Res} (hu : userOnly e = true) (ha : Agree ρ ρ₂) (hka : k ≤ a) (h12 : (rw e k).2 ≤ k2)
    (hK : ∀ v ρ' ρ₂' l', Agree ρ' ρ₂' → SimS a k2 ρ₂' (K v ρ' l') (K₂ v ρ₂' l')) :
    SimS k k2 ρ₂ (bindE (eval W e ρ l) K) (bindE (eval W (rw e k).1 ρ₂ l) K₂) := by
  obtain ⟨_, ⟨hr, hl, hag, hf⟩⟩ := he k ρ ρ₂ l hu ha
  generalize eval W e ρ l = o at hr hl hag
  generalize eval W (rw e k).1 ρ₂ l = o2 at hr hl hag hf
  obtain ⟨r, ρ', l'⟩ := o
  obtain ⟨r2, ρ2', l2'⟩ := o2
  simp only at hr hl hag hf
  subst hr; subst hl
  cases r2 with
  | error ex =>
    simp only [bindE]
    exact ⟨rfl, rfl, hag, hf.widen (Nat.le_refl _) h12⟩
  | ok v =>
    simp only [bindE]
    have h := hK v ρ' ρ2' l2' hag
    exact ⟨h.res, h.log, h.agree, hf.comp h.frame hka h12⟩

/-- a block, then a continuation -/
theorem simS_bindO {k k1 a k2 : Nat} {ρ₂ : Env} {o o₂ : Res} {K K₂ : Env → Log → Res}
    (h : SimS k k1 ρ₂ o o₂) (hka : k ≤ a) (h12 : k1 ≤ k2)
    (hK : ∀ ρ' ρ₂' l', Agree ρ' ρ₂' → SimS a k2 ρ₂' (K ρ' l') (K₂ ρ₂' l')) :
    SimS k k2 ρ₂ (bindO o K) (bindO o₂ K₂) := by
  obtain ⟨hr, hl, hag, hf⟩ := h
  obtain ⟨r, ρ', l'⟩ := o
  obtain ⟨r2, ρ2', l2'⟩ := o₂
  simp only at hr hl hag hf
  subst hr; subst hl
  cases r2 with
  | normal =>
    simp only [bindO]
    have h := hK ρ' ρ2' l2' hag
    exact ⟨h.res, h.log, h.agree, hf.comp h.frame hka h12⟩
  | returned v => simp only [bindO]; exact ⟨rfl, rfl, hag, hf.widen (Nat.le_refl _) h12⟩
  | exn e => simp only [bindO]; exact ⟨rfl, rfl, hag, hf.widen (Nat.le_refl _) h12⟩
  | fuel => simp only [bindO]; exact ⟨rfl, rfl, hag, hf.widen (Nat.le_refl _) h12⟩

/-- `try: … finally: …`, then a continuation -/
theorem simS_tryFin {k k1 k2 k3 : Nat} {ρ₂ : Env} {o o₂ : Res} {F F₂ K K₂ : Env → Log → Res}
    (h : SimS k k1 ρ₂ o o₂) (h01 : k ≤ k1) (h12 : k1 ≤ k2) (h23 : k2 ≤ k3)
    (hF : ∀ ρ' ρ₂' l', Agree ρ' ρ₂' → SimS k1 k2 ρ₂' (F ρ' l') (F₂ ρ₂' l'))
    (hK : ∀ ρ' ρ₂' l', Agree ρ' ρ₂' → SimS k2 k3 ρ₂' (K ρ' l') (K₂ ρ₂' l')) :
    SimS k k3 ρ₂ (tryFin o F K) (tryFin o₂ F₂ K₂) := by
  obtain ⟨hr, hl, hag, hf⟩ := h
  obtain ⟨r, ρ', l'⟩ := o
  obtain ⟨r2, ρ2', l2'⟩ := o₂
  simp only at hr hl hag hf
  subst hr; subst hl
  have hFs := hF ρ' ρ2' l2' hag
  have glue : ∀ {x x₂ : Res}, SimS k1 k3 ρ2' x x₂ → SimS k k3 ρ₂ x x₂ :=
    fun hx => ⟨hx.res, hx.log, hx.agree, hf.comp hx.frame h01 (by omega)⟩
  cases r2 with
  | normal =>
    simp only [tryFin]
    exact glue (simS_bindO hFs h12 h23 hK)
  | returned v =>
    simp only [tryFin]
    exact glue (simS_bindO hFs h12 h23 (fun ρ'' ρ₂'' l'' hag' => ⟨rfl, rfl, hag', Frame.refl _ _ _⟩))
  | exn e =>
    simp only [tryFin]
    exact glue (simS_bindO hFs h12 h23 (fun ρ'' ρ₂'' l'' hag' => ⟨rfl, rfl, hag', Frame.refl _ _ _⟩))
  | fuel =>
    simp only [tryFin]
    exact ⟨rfl, rfl, hag, hf.widen (Nat.le_refl _) (by omega)⟩

/-! ### the counter never decreases -/

theorem rw_mono (W : World) (ok : WOK W) (e : Expr) (hu : userOnly e = true) (k : Nat) : k ≤ (rw e k).2 :=
  (pExpr W ok (sizeOf e + 1) e (Nat.lt_succ_self _) k (fun _ => none) (fun _ => none) [] hu (fun _ => rfl)).1

mutual
theorem rwStmt_mono (W : World) (ok : WOK W) : ∀ (s : Stmt) (k : Nat), userOnlyStmt s = true → k ≤ (rwStmt s k).2
  | .assign _ e, k, h => by
    simp only [userOnlyStmt] at h; simp only [rwStmt]; exact rw_mono W ok e h k
  | .expr e, k, h => by
    simp only [userOnlyStmt] at h; simp only [rwStmt]; exact rw_mono W ok e h k
  | .ret e, k, h => by
    simp only [userOnlyStmt] at h; simp only [rwStmt]; exact rw_mono W ok e h k
  | .ite c thn els, k, h => by
    simp only [userOnlyStmt, Bool.and_eq_true] at h
    simp only [rwStmt]
    have h1 := rw_mono W ok c h.1.1 k
    have h2 := rwS_mono W ok thn (rw c k).2 h.1.2
    have h3 := rwS_mono W ok els (rwS thn (rw c k).2).2 h.2
    omega
  | .while c body, k, h => by
    simp only [userOnlyStmt, Bool.and_eq_true] at h
    simp only [rwStmt]
    have h1 := rw_mono W ok c h.1 k
    have h2 := rwS_mono W ok body (rw c k).2 h.2
    omega
  | .tryFinally body fin, k, h => by
    simp only [userOnlyStmt, Bool.and_eq_true] at h
    simp only [rwStmt]
    have h1 := rwS_mono W ok body k h.1
    have h2 := rwS_mono W ok fin (rwS body k).2 h.2
    omega
  | .raise _, k, _ => by simp only [rwStmt]; exact Nat.le_refl _
  | .pass, k, _ => by simp only [rwStmt]; exact Nat.le_refl _
theorem rwS_mono (W : World) (ok : WOK W) : ∀ (b : List Stmt) (k : Nat), userOnlyS b = true → k ≤ (rwS b k).2
  | [], k, _ => by simp only [rwS]; exact Nat.le_refl _
  | s :: rest, k, h => by
    simp only [userOnlyS, Bool.and_eq_true] at h
    simp only [rwS]
    have h1 := rwStmt_mono W ok s k h.1
    have h2 := rwS_mono W ok rest (rwStmt s k).2 h.2
    omega
end

/-! ### the general simulation -/

/-- for every start counter `k` and every pair of environments that agree on the user variables, running the
    rewritten block simulates running the original one, and only the temporaries in `[k, k')` are touched -/
def PBlock (W : World) (n : Nat) (b : List Stmt) : Prop :=
  ∀ (k : Nat) (ρ ρ₂ : Env) (l : Log), userOnlyS b = true → Agree ρ ρ₂ →
    k ≤ (rwS b k).2 ∧ SimS k (rwS b k).2 ρ₂ (exec W n b ρ l) (exec W n (rwS b k).1 ρ₂ l)

theorem pBlock (W : World) (ok : WOK W) : ∀ (n : Nat) (b : List Stmt), PBlock W n b := by
  have pE : ∀ e, PExpr W e := fun e => pExpr W ok (sizeOf e + 1) e (Nat.lt_succ_self _)
  intro n
  induction n with
  | zero =>
    intro b k ρ ρ₂ l hu ha
    refine ⟨rwS_mono W ok b k hu, ?_⟩
    cases b with
    | nil => simp only [rwS, exec]; exact ⟨rfl, rfl, ha, Frame.refl _ _ _⟩
    | cons s rest => simp only [rwS, exec]; exact ⟨rfl, rfl, ha, Frame.refl _ _ _⟩
  | succ n ih =>
    intro b k ρ ρ₂ l hu ha
    refine ⟨rwS_mono W ok b k hu, ?_⟩
    cases b with
    | nil => simp only [rwS, exec]; exact ⟨rfl, rfl, ha, Frame.refl _ _ _⟩
    | cons s rest =>
      have hu0 := hu
      simp only [userOnlyS, Bool.and_eq_true] at hu
      obtain ⟨hus, hur⟩ := hu
      cases s with
      | assign x e =>
        simp only [userOnlyStmt] at hus
        simp only [rwS, rwStmt, exec]
        refine simS_bindE (pE e) hus ha (rw_mono W ok e hus k) (rwS_mono W ok rest _ hur) ?_
        intro v ρ' ρ₂' l' hag
        have h := (ih rest (rw e k).2 _ _ l' hur (hag.setUser x v)).2
        exact ⟨h.res, h.log, h.agree, h.frame.ofSetUser⟩
      | expr e =>
        simp only [userOnlyStmt] at hus
        simp only [rwS, rwStmt, exec]
        refine simS_bindE (pE e) hus ha (rw_mono W ok e hus k) (rwS_mono W ok rest _ hur) ?_
        intro v ρ' ρ₂' l' hag
        exact (ih rest (rw e k).2 _ _ l' hur hag).2
      | ret e =>
        simp only [userOnlyStmt] at hus
        simp only [rwS, rwStmt, exec]
        refine simS_bindE (pE e) hus ha (rw_mono W ok e hus k) (rwS_mono W ok rest _ hur) ?_
        intro v ρ' ρ₂' l' hag
        exact ⟨rfl, rfl, hag, Frame.refl _ _ _⟩
      | raise m =>
        simp only [rwS, rwStmt, exec]
        exact ⟨rfl, rfl, ha, Frame.refl _ _ _⟩
      | pass =>
        simp only [rwS, rwStmt, exec]
        exact (ih rest k ρ ρ₂ l hur ha).2
      | ite c thn els =>
        simp only [userOnlyStmt, Bool.and_eq_true] at hus
        obtain ⟨⟨huc, hut⟩, hue⟩ := hus
        simp only [rwS, rwStmt, exec]
        have m1 := rw_mono W ok c huc k
        have m2 := rwS_mono W ok thn (rw c k).2 hut
        have m3 := rwS_mono W ok els (rwS thn (rw c k).2).2 hue
        have m4 := rwS_mono W ok rest (rwS els (rwS thn (rw c k).2).2).2 hur
        refine simS_bindE (a := (rw c k).2) (pE c) huc ha m1 (by omega) ?_
        intro v ρ' ρ₂' l' hag
        have hrest : ∀ ρ' ρ₂' l', Agree ρ' ρ₂' →
            SimS (rwS els (rwS thn (rw c k).2).2).2 (rwS rest (rwS els (rwS thn (rw c k).2).2).2).2 ρ₂'
              (exec W n rest ρ' l') (exec W n (rwS rest (rwS els (rwS thn (rw c k).2).2).2).1 ρ₂' l') :=
          fun ρ' ρ₂' l' hag => (ih rest _ ρ' ρ₂' l' hur hag).2
        cases ht : truthy v with
        | true =>
          simp only [if_true]
          exact simS_bindO (ih thn (rw c k).2 ρ' ρ₂' l' hut hag).2 (by omega) (by omega) hrest
        | false =>
          simp only [Bool.false_eq_true, if_false]
          exact (simS_bindO (ih els (rwS thn (rw c k).2).2 ρ' ρ₂' l' hue hag).2 m3 m4 hrest).widen m2 (Nat.le_refl _)
      | «while» c body =>
        simp only [userOnlyStmt, Bool.and_eq_true] at hus
        obtain ⟨huc, hub⟩ := hus
        have m1 := rw_mono W ok c huc k
        have m2 := rwS_mono W ok body (rw c k).2 hub
        have m3 := rwS_mono W ok rest (rwS body (rw c k).2).2 hur
        -- the next iteration: the induction hypothesis on the whole loop, from the same counter
        have hloop : ∀ ρ' ρ₂' l', Agree ρ' ρ₂' → _ :=
          fun ρ' ρ₂' l' hag => (ih (.while c body :: rest) k ρ' ρ₂' l' hu0 hag).2
        simp only [rwS, rwStmt] at hloop
        simp only [rwS, rwStmt, exec]
        refine simS_bindE (a := k) (pE c) huc ha (Nat.le_refl _) (by omega) ?_
        intro v ρ' ρ₂' l' hag
        cases ht : truthy v with
        | true =>
          simp only [if_true]
          exact simS_bindO (a := k) ((ih body (rw c k).2 ρ' ρ₂' l' hub hag).2.widen m1 (Nat.le_refl _))
            (Nat.le_refl _) m3 hloop
        | false =>
          simp only [Bool.false_eq_true, if_false]
          exact (ih rest _ ρ' ρ₂' l' hur hag).2.widen (by omega) (Nat.le_refl _)
      | tryFinally body fin =>
        simp only [userOnlyStmt, Bool.and_eq_true] at hus
        obtain ⟨hub, huf⟩ := hus
        simp only [rwS, rwStmt, exec]
        exact simS_tryFin (ih body k ρ ρ₂ l hub ha).2 (rwS_mono W ok body k hub) (rwS_mono W ok fin _ huf)
          (rwS_mono W ok rest _ hur)
          (fun ρ' ρ₂' l' hag => (ih fin _ ρ' ρ₂' l' huf hag).2)
          (fun ρ' ρ₂' l' hag => (ih rest _ ρ' ρ₂' l' hur hag).2)

/-- C09 for statements: for every block written without the reserved temporaries and every fuel, the rewritten block
    ends the same way (normal completion / same returned value / same exception / out of fuel), with the same
    sequence of side effects, and leaves the user's variables identical. -/
theorem C09_stmt_preserves (W : World) (ok : WOK W) (fuel : Nat) (b : List Stmt) (ρ : Env) (l : Log)
    (hu : userOnlyS b = true) :
    (exec W fuel (rwS b 0).1 ρ l).1 = (exec W fuel b ρ l).1
      ∧ (exec W fuel (rwS b 0).1 ρ l).2.2 = (exec W fuel b ρ l).2.2
      ∧ Agree (exec W fuel b ρ l).2.1 (exec W fuel (rwS b 0).1 ρ l).2.1 := by
  have h := (pBlock W ok fuel b 0 ρ ρ l hu (fun _ => rfl)).2
  exact ⟨h.res, h.log, h.agree⟩

/-! ### `rwS` leaves everything else alone -/

mutual
theorem rwStmt_id_aux : ∀ (s : Stmt), noRecCallStmt s = true → ∀ k, rwStmt s k = (s, k)
  | .assign _ e, h, k => by
    simp only [noRecCallStmt] at h; simp only [rwStmt, rw_id e h k, rw_id_counter e h k]
  | .expr e, h, k => by
    simp only [noRecCallStmt] at h; simp only [rwStmt, rw_id e h k, rw_id_counter e h k]
  | .ret e, h, k => by
    simp only [noRecCallStmt] at h; simp only [rwStmt, rw_id e h k, rw_id_counter e h k]
  | .ite c thn els, h, k => by
    simp only [noRecCallStmt, Bool.and_eq_true] at h
    simp only [rwStmt, rw_id c h.1.1 k, rw_id_counter c h.1.1 k, rwS_id_aux thn h.1.2, rwS_id_aux els h.2]
  | .while c body, h, k => by
    simp only [noRecCallStmt, Bool.and_eq_true] at h
    simp only [rwStmt, rw_id c h.1 k, rw_id_counter c h.1 k, rwS_id_aux body h.2]
  | .tryFinally body fin, h, k => by
    simp only [noRecCallStmt, Bool.and_eq_true] at h
    simp only [rwStmt, rwS_id_aux body h.1, rwS_id_aux fin h.2]
  | .raise _, _, k => by simp only [rwStmt]
  | .pass, _, k => by simp only [rwStmt]
theorem rwS_id_aux : ∀ (b : List Stmt), noRecCallS b = true → ∀ k, rwS b k = (b, k)
  | [], _, k => by simp only [rwS]
  | s :: rest, h, k => by
    simp only [noRecCallS, Bool.and_eq_true] at h
    simp only [rwS, rwStmt_id_aux s h.1, rwS_id_aux rest h.2]
end

/-- a block that contains no call of the globals `recurse` / `call_next` is returned unchanged and consumes no
    temporary prefix -/
theorem rwS_id (b : List Stmt) (h : noRecCallS b = true) (k : Nat) : rwS b k = (b, k) := rwS_id_aux b h k

/-! ### a concrete run

```
x = 2
while x:
    try:
        y = recurse(tick a (x), p = tick b (1))
        x = x + -1
    finally:
        tick f (0)
return y + call_next(y)
``` -/
namespace Example
def b0 : List Stmt :=
  [.assign "x" (.lit 2),
   .while (.var (.user "x"))
     [.tryFinally
        [.assign "y" (.call (.glob "recurse") [.tick "a" (.var (.user "x"))] [("p", .tick "b" (.lit 1))]),
         .assign "x" (.add (.var (.user "x")) (.lit (-1)))]
        [.expr (.tick "f" (.lit 0))]],
   .ret (.add (.var (.user "y")) (.call (.glob "call_next") [.var (.user "y")] []))]

example : userOnlyS b0 = true := by decide

/-- prefix 0 for the `recurse(…)` in the loop (re-used by every iteration), 1 for the `call_next(…)` after it -/
example : rwS b0 0 =
    ([.assign "x" (.lit 2),
      .while (.var (.user "x"))
        [.tryFinally
           [.assign "y" (.call (.subscript (.glob "MAP") (.tuple
               [typeCall (.tmp 0 (.pos 0)) (.tick "a" (.var (.user "x"))),
                .pair "p" (typeCall (.tmp 0 (.kw "p")) (.tick "b" (.lit 1)))]))
              [.var (.tmp 0 (.pos 0))] [("p", .var (.tmp 0 (.kw "p")))]),
            .assign "x" (.add (.var (.user "x")) (.lit (-1)))]
           [.expr (.tick "f" (.lit 0))]],
      .ret (.add (.var (.user "y"))
        (.call (.subscript (.glob "MAP") (.tuple [.glob "CODE", typeCall (.tmp 1 (.pos 0)) (.var (.user "y"))]))
          [.var (.tmp 1 (.pos 0))] []))], 2) := by rfl

example : (exec W0 10 b0 ρ0 []).1 = .returned (.int 28) := by decide
example : (exec W0 10 (rwS b0 0).1 ρ0 []).1 = .returned (.int 28) := by decide
example : (exec W0 10 b0 ρ0 []).2.2 = ["a", "b", "enter8", "f", "a", "b", "enter8", "f", "enter8"] := by decide
example : (exec W0 10 (rwS b0 0).1 ρ0 []).2.2 = ["a", "b", "enter8", "f", "a", "b", "enter8", "f", "enter8"] := by decide
example : (exec W0 10 b0 ρ0 []).2.1 (.user "y") = some (.int 19)
    ∧ (exec W0 10 (rwS b0 0).1 ρ0 []).2.1 (.user "y") = some (.int 19) := by decide
example : (exec W0 10 b0 ρ0 []).2.1 (.user "x") = some (.int 0)
    ∧ (exec W0 10 (rwS b0 0).1 ρ0 []).2.1 (.user "x") = some (.int 0) := by decide
/-- too little fuel to finish the second iteration: both versions stop at the same point (after the second
    `recurse(…)`, before `x = x + -1`; the `finally` block is not run for `Outcome.fuel`) -/
example : (exec W0 5 b0 ρ0 []).1 = .fuel ∧ (exec W0 5 (rwS b0 0).1 ρ0 []).1 = .fuel
    ∧ (exec W0 5 b0 ρ0 []).2.2 = ["a", "b", "enter8", "f", "a", "b", "enter8"]
    ∧ (exec W0 5 (rwS b0 0).1 ρ0 []).2.2 = ["a", "b", "enter8", "f", "a", "b", "enter8"] := by decide
/-- `rwS_id` does not apply to `b0` (it has call sites), it does to a block without them -/
example : noRecCallS b0 = false ∧ noRecCallS [Stmt.assign "x" (.lit 2), .pass] = true := by decide

/-- an exception in the `try` body: the `finally` block runs, then the exception propagates (the loop is left) -/
def b1 : List Stmt :=
  [.while (.lit 1)
     [.tryFinally
        [.expr (.call (.glob "recurse") [.tick "a" (.lit 1)] []), .raise 4, .expr (.tick "unreached" (.lit 0))]
        [.expr (.tick "f" (.lit 0))]]]
example : (exec W0 10 b1 ρ0 []).1 = .exn (.user 4) ∧ (exec W0 10 (rwS b1 0).1 ρ0 []).1 = .exn (.user 4) := by decide
example : (exec W0 10 b1 ρ0 []).2.2 = ["a", "enter7", "f"] ∧ (exec W0 10 (rwS b1 0).1 ρ0 []).2.2 = ["a", "enter7", "f"] := by
  decide
end Example

end Ovld.Rw
