import Ovldverif.Model.MultiMap
/-!
# Specification of resolution (C02, C06, C07): the documented priority-then-specificity rule

`specResolve` mentions only the methods applicable to the key, their declared types, priorities and — between
identical signatures — recency (`tb`: the later registration has the larger tiebreak).  It is manifestly
independent of registration order, of set iteration orders and of non-applicable methods.
-/
set_option autoImplicit false
namespace Ovld

section
variable (H : Hier)

def arityOK (m : Meth) (k : Key) : Bool :=
  m.reqPos ≤ keyNargs k && keyNargs k ≤ m.maxPos && m.reqNames.all (fun n => (keyNames k).contains n)

/-- `m` accepts the call shape and every supplied argument type is a subtype of the declared one -/
def applicableTo (k : Key) (m : Meth) : Bool :=
  arityOK m k && k.all (fun e => match m.tyAt e.1 with
    | some t => subclasscheck H e.2 t
    | none => false)

def applicable (ms : List Meth) (k : Key) : List Meth := ms.filter (applicableTo H k)

/-- "the same as or a subclass of" on declared types -/
def leTy (t t' : Ty) : Bool := t == t' || subclasscheck H t t'

def leAt (k : Key) (m m' : Meth) : Bool :=
  k.all (fun e => match m.tyAt e.1, m'.tyAt e.1 with
    | some t, some t' => leTy H t t'
    | _, _ => false)

def sameTypesAt (k : Key) (m m' : Meth) : Bool :=
  k.all (fun e => m.tyAt e.1 == m'.tyAt e.1)

/-- identical signatures (everything `Signature.__eq__` compares except the tiebreak) -/
def sameSig (m m' : Meth) : Bool :=
  m.params == m'.params && m.reqPos == m'.reqPos && m.maxPos == m'.maxPos &&
  m.reqNames == m'.reqNames && m.prio == m'.prio

/-- the documented rule: higher priority wins; at equal priority a method wins when each of its parameter
    types is the same as or a subclass of the other's and they differ; between identical signatures the
    most recently registered wins -/
def beats (k : Key) (m m' : Meth) : Bool :=
  decide (m.prio > m'.prio) ||
  (decide (m.prio = m'.prio) &&
    ((leAt H k m m' && !sameTypesAt k m m') || (sameSig m m' && decide (m.tb > m'.tb))))

inductive SpecRes | ran (id : Nat) | ambiguous | noMethod
deriving DecidableEq, Repr

def winners (ms : List Meth) (k : Key) : List Meth :=
  let ap := applicable H ms k
  ap.filter (fun m => ap.all (fun m' => m'.id == m.id || beats H k m m'))

def specResolve (ms : List Meth) (k : Key) : SpecRes :=
  match winners H ms k with
  | [w] => .ran w.id
  | _ => if (applicable H ms k).isEmpty then .noMethod else .ambiguous

/-- hypothesis of `C02_partial` (complement of finding D1): the declared types of the applicable methods are
    pairwise comparable in every slot of the key -/
def candComparable (ms : List Meth) (k : Key) : Bool :=
  let ap := applicable H ms k
  ap.all (fun m => ap.all (fun m' => k.all (fun e =>
    match m.tyAt e.1, m'.tyAt e.1 with
    | some t, some t' => leTy H t t' || leTy H t' t
    | _, _ => true)))

/-- hypothesis of `C02_partial` (complement of finding D21): applicable methods with the same types in the
    key's slots and the same priority but different signatures carry the same tiebreak -/
def sigTieOK (ms : List Meth) (k : Key) : Bool :=
  let ap := applicable H ms k
  ap.all (fun m => ap.all (fun m' =>
    !(sameTypesAt k m m' && m.prio == m'.prio && !sameSig m m') || m.tb == m'.tb))

/-! ### the rule read up to mutual subclassing

Two distinct classes that are subclasses of each other (structurally identical runtime protocols) are outside
`Hier.Antisym`, the hypothesis of `C02_partial`.  The `…E` definitions read "the same type" as "each a subclass of
the other": under `Hier.Antisym` they are the definitions above (`Props/C02Twin.lean`), outside it they are what the
correspondence harness holds the implementation to (oracle only). -/

def eqvTy (t t' : Ty) : Bool := leTy H t t' && leTy H t' t

def sameTypesAtE (k : Key) (m m' : Meth) : Bool :=
  k.all (fun e => match m.tyAt e.1, m'.tyAt e.1 with
    | some t, some t' => eqvTy H t t'
    | none, none => true
    | _, _ => false)

def beatsE (k : Key) (m m' : Meth) : Bool :=
  decide (m.prio > m'.prio) ||
  (decide (m.prio = m'.prio) &&
    ((leAt H k m m' && !sameTypesAtE H k m m') || (sameSig m m' && decide (m.tb > m'.tb))))

def winnersE (ms : List Meth) (k : Key) : List Meth :=
  let ap := applicable H ms k
  ap.filter (fun m => ap.all (fun m' => m'.id == m.id || beatsE H k m m'))

def specResolveE (ms : List Meth) (k : Key) : SpecRes :=
  match winnersE H ms k with
  | [w] => .ran w.id
  | _ => if (applicable H ms k).isEmpty then .noMethod else .ambiguous

def sigTieOKE (ms : List Meth) (k : Key) : Bool :=
  let ap := applicable H ms k
  ap.all (fun m => ap.all (fun m' =>
    !(sameTypesAtE H k m m' && m.prio == m'.prio && !sameSig m m') || m.tb == m'.tb))

/-- all declared types are plain classes (classes, ABCs, protocols) -/
def staticTable (ms : List Meth) : Bool := ms.all (fun m => m.params.all (fun p => p.2.isCls))

end
end Ovld

namespace Ovld
section
variable (H : Hier)

/-- C07: what `call_next` from the method with code object `code` must do for the key `k`: resolve as if the
    current method and everything ranked above it were not registered; like a fresh call when the current
    method is not applicable to `k` -/
def nextSpec (ms : List Meth) (code : Nat) (k : Key) : SpecRes :=
  match (applicable H ms k).find? (fun m => m.hasCode && m.code == code) with
  | none => specResolve H ms k
  | some cur =>
    specResolve H (ms.filter (fun m => !(m.id == cur.id || (applicableTo H k m && beats H k m cur)))) k

def nextSpecE (ms : List Meth) (code : Nat) (k : Key) : SpecRes :=
  match (applicable H ms k).find? (fun m => m.hasCode && m.code == code) with
  | none => specResolveE H ms k
  | some cur =>
    specResolveE H (ms.filter (fun m => !(m.id == cur.id || (applicableTo H k m && beatsE H k m cur)))) k

end
end Ovld

namespace Ovld

/-- the key of a call: distinct slots, run-time types are plain classes -/
def keyWF (k : Key) : Bool :=
  (k.map (·.1)).eraseDups.length == k.length && k.all (fun e => e.2.isCls)

/-- every entry declares each slot at most once -/
def tableWF (ms : List Meth) : Bool :=
  ms.all (fun m => (m.params.map (·.1)).eraseDups.length == m.params.length)

/-- agreement between the table's answer and the documented rule (which candidates an ambiguity error lists
    is not part of the rule) -/
def specAgrees : Res Entry (List Nat) → SpecRes → Prop
  | .ok (.meth id), .ran id' => id = id'
  | .amb _, .ambiguous => True
  | .noMethod, .noMethod => True
  | _, _ => False

end Ovld
