import Ovldverif.Model.JsonD
import Ovldverif.Model.JsonE
import Ovldverif.Model.Fn
/-! Decoding / encoding for function-level scenarios (trusted glue). -/
set_option autoImplicit false
open Lean
namespace Ovld

def paramOfJson (j : Json) : Except String Param := do
  let kind ← jStr (← jField j "kind")
  let k ← match kind with
    | "po" => pure PKind.posOnly
    | "pk" => pure PKind.posOrKw
    | "ko" => pure PKind.kwOnly
    | s => throw s!"bad param kind {s}"
  return { name := ← jNat (← jField j "name"), kind := k, required := ← jBool (← jField j "req"), ty := ← tyOfJson (← jField j "ty") }

def argOfJson (j : Json) : Except String Arg := do
  let val ← match j.getObjVal? "val" with
    | .ok v => dvalOfJson v
    | .error _ => pure default
  return { vid := ← jNat (← jField j "vid"), cls := ← tyOfJson (← jField j "cls"), subtler := ← tyOfJson (← jField j "subtler"), val := val }

def srcOfJson (pool : Array Arg) (j : Json) : Except String ArgSrc := do
  let a ← jArr j
  match (← jStr a[0]!) with
  | "p" => return .param (← jNat a[1]!)
  | "c" => match pool[(← jNat a[1]!)]? with
    | some v => return .const v
    | none => throw "bad arg index"
  | s => throw s!"bad arg source {s}"

def bodyOfJson (pool : Array Arg) (j : Json) : Except String Body := do
  let a ← jArr j
  let srcs : Except String (List ArgSrc) := do (← jArr a[1]!).toList.mapM (srcOfJson pool)
  match (← jStr a[0]!) with
  | "ret" => return .ret
  | "callNext" => return .callNext (← srcs)
  | "recurse" => return .recurse (← srcs)
  | "next" => return .next (← srcs)
  | s => throw s!"bad body {s}"

def defOfJson (pool : Array Arg) (j : Json) : Except String Def := do
  let d : FnDef := {
    id := ← jNat (← jField j "id"), code := ← jNat (← jField j "code"),
    isMethod := ← jBool (jFieldD j "isMethod" (Json.bool false)),
    params := ← (← jArr (← jField j "params")).toList.mapM paramOfJson,
    prio := ← jInt (← jField j "prio") }
  return { d := d, body := ← bodyOfJson pool (← jField j "body") }

def callOfJson (pool : Array Arg) (a : Array Json) : Except String Call := do
  let get (j : Json) : Except String Arg := do
    match pool[(← jNat j)]? with
    | some v => pure v
    | none => throw "bad arg index"
  let pos ← (← jArr a[1]!).toList.mapM get
  let kw ← (← jArr a[2]!).toList.mapM (fun e => do
    let p ← jArr e
    return (← jNat p[0]!, ← get p[1]!))
  return { pos := pos, kw := kw }

def outcomeToJson : Outcome → Json
  | .ran id => Json.arr #[Json.str "ran", toJson id]
  | .ambiguous ids => Json.arr #[Json.str "ambiguous", toJson (sortNat ids)]
  | .noMethod => Json.arr #[Json.str "nomethod"]
  | .bindError => Json.arr #[Json.str "bind"]
  | .methodBindError => Json.arr #[Json.str "bind"]
  | .configError => Json.arr #[Json.str "config"]
  | .locked => Json.arr #[Json.str "locked"]
  | .depth => Json.arr #[Json.str "depth"]
  | .keyError => Json.arr #[Json.str "keyerror"]
  | .cycle => Json.arr #[Json.str "cycle"]
  | .raised => Json.arr #[Json.str "raised"]
  | .unsupported => Json.arr #[Json.str "unsupported"]

def traceToJson (t : Trace) : Json :=
  Json.arr (t.toArray.map (fun (id, pos, kw) =>
    Json.arr #[toJson id, toJson pos,
      toJson ((kw.mergeSort (fun a b => a.1 ≤ b.1)).map (fun p => [p.1, p.2]))]))

end Ovld
