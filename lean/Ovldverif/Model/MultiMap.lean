import Ovldverif.Model.SortTypes
import Ovldverif.Model.Rank
import Ovldverif.Model.Cache
import Ovldverif.Spec.CacheSpec
/-!
# Layer D (3/3): `TypeMap` / `MultiTypeMap` (typemap.py L12-55, L79-234, L303-388)

The iteration orders of the library's sets are explicit inputs (`Cfg.tyRank` for `TypeMap.types`,
`Cfg.hRank` for the candidate set of `mro`); everything else follows the code.
-/
set_option autoImplicit false
namespace Ovld

inductive Slot | pos (i : Nat) | kw (n : Nat)
deriving DecidableEq, Repr, Inhabited

def Slot.isPos : Slot → Bool | .pos _ => true | _ => false

abbrev Key := List (Slot × Ty)

/-- a registered `(handler, sig)` entry -/
structure Meth where
  id : Nat
  code : Nat
  params : List (Slot × Ty)
  reqPos : Nat
  maxPos : Nat
  reqNames : List Nat
  prio : Int
  tb : Int
  hasCode : Bool := true
deriving Inhabited

def Meth.tyAt (m : Meth) (s : Slot) : Option Ty :=
  match m.params.find? (fun p => p.1 == s) with
  | some p => some p.2
  | none => none

def Meth.dependent (m : Meth) : Bool := m.params.any (fun p => p.2.isDep)

structure Cfg where
  H : Hier
  tyRank : Ty → Nat
  hRank : Nat → Nat
  /-- tag of `type(c)` (the metaclass) of class `c` (only the dependent-dispatch generator looks at it) -/
  metaOf : Nat → Nat := fun _ => 0
  /-- `T.check(value)` of a `FuncDependentType`: user conditions and built-in value types are parameters -/
  chk : Nat → List (Option Nat) → Nat → Tri := fun _ _ _ => .raises

/-- what a dict entry of the table is: a registered handler, or a generated dependent dispatcher over
    the handlers of one rank that falls through to the entry of the next rank (`noNext`: raises "No method";
    `ambNext ids`: the rank below is tied, raises its ambiguity) -/
inductive Entry
  | meth (id : Nat)
  | dep (handlers : List Nat) (next : Entry)
  | noNext
  /-- falling through into a tied rank: raises that rank's ambiguity (`fix:` for finding D20) -/
  | ambNext (ids : List Nat)
deriving DecidableEq, Repr, Inhabited

section
variable (cfg : Cfg) (ms : List Meth)

def findMeth (id : Nat) : Option Meth := ms.find? (fun m => m.id == id)

def dedupTy : List Ty → List Ty
  | [] => []
  | t :: ts => if (dedupTy ts).contains t then dedupTy ts else t :: dedupTy ts

/-- iteration order of `TypeMap.types` for the slot -/
def slotTypes (s : Slot) : List Ty :=
  let ts := (ms.filterMap (fun m => m.tyAt s)).reverse
  (dedupTy ts).reverse.mergeSort (fun a b => cfg.tyRank a ≤ cfg.tyRank b)

def slotExists (s : Slot) : Bool := ms.any (fun m => (m.tyAt s).isSome)

/-- `self.maps[s][cls]` as `{(handler, sig): level}`; `none` = CycleError, `some []` = KeyError -/
def tmLookup (s : Slot) (cls : Ty) : Option (List (Nat × Nat)) :=
  match levels cfg.H cls (slotTypes cfg ms s) with
  | none => none
  | some lv =>
    some (lv.flatMap (fun (t, l) => (ms.filter (fun m => m.tyAt s == some t)).map (fun m => (m.id, l))))

def keyNargs (k : Key) : Nat := (k.filter (fun e => e.1.isPos)).length
def keyNames (k : Key) : List Nat := k.filterMap (fun e => match e.1 with | .kw n => some n | _ => none)

def sigOK (nargs : Nat) (names : List Nat) (id : Nat) : Bool :=
  match findMeth ms id with
  | some m => m.reqPos ≤ nargs && nargs ≤ m.maxPos && m.reqNames.all (fun n => names.contains n)
  | none => false

/-- per slot of the key: the filtered `{handler: level}` results (typemap.py L117-133) -/
def slotResults (k : Key) : Option (List (List (Nat × Nat))) :=
  k.mapM (fun (s, cls) =>
    match tmLookup cfg ms s cls with
    | none => none
    | some r => some (r.filter (fun p => sigOK ms (keyNargs k) (keyNames k) p.1)))

def candIds (rs : List (List (Nat × Nat))) : List Nat :=
  match rs with
  | [] => []
  | r :: rest => (r.map (·.1)).filter (fun id => rest.all (fun r' => (r'.map (·.1)).contains id))

def lvlIn (r : List (Nat × Nat)) (id : Nat) : Nat :=
  match r.find? (fun p => p.1 == id) with
  | some p => p.2
  | none => 0

def mkCand (rs : List (List (Nat × Nat))) (id : Nat) : Cand :=
  let m := (findMeth ms id).getD default
  { id := id, prio := m.prio, spec := rs.map (fun r => lvlIn r id), tb := m.tb }

/-- a call without any argument (`candidates is None` after the loop of `mro`): every method that requires no
    argument competes, on priority alone (since the `fix:` for finding D9; before it the table kept one
    `empty` entry, the zero-parameter method registered last) -/
def zeroArgIds : List Nat :=
  (ms.filter (fun m => m.reqPos == 0 && m.reqNames.isEmpty)).map (·.id)

/-- the candidate list before sorting, in the iteration order of the candidate set -/
def candidates (k : Key) : Option (List Cand) :=
  match slotResults cfg ms k with
  | none => none
  | some rs =>
    let ids0 := if k.isEmpty then zeroArgIds ms else candIds rs
    let ids := ids0.mergeSort (fun a b => cfg.hRank a ≤ cfg.hRank b)
    some (ids.map (mkCand ms rs))

/-- `MultiTypeMap.mro` -/
def mro (k : Key) : Option (List (List Cand)) :=
  (candidates cfg ms k).map ranks

def codeOf (id : Nat) : Option Nat :=
  match findMeth ms id with
  | some m => if m.hasCode then some m.code else none
  | none => none

/-- bottom-up half of `resolve` (L326-341) -/
def mkRanks : List (List Cand) → List (Rank Entry (List Nat))
  | [] => []
  | g :: gs =>
    let below := mkRanks gs
    let ids := g.map (·.id)
    let dependent := ids.any (fun id => ((findMeth ms id).map Meth.dependent).getD false)
    let nxt : Entry := match below with
      | r :: _ => (match r.func with | some e => e | none => Entry.ambNext r.err)
      | [] => Entry.noNext
    let func : Option Entry :=
      if dependent then some (Entry.dep ids nxt)
      else match ids with
        | [id] => some (Entry.meth id)
        | _ => none
    { func := func, codes := ids.filterMap (codeOf ms), err := ids } :: below

def plan (k : Key) : Plan Entry (List Nat) :=
  match candidates cfg ms k with
  | none => { ranks := [], allCodes := [], fail := true }
  | some cs =>
    let s := sortCands cs
    { ranks := mkRanks ms (pull s.length s []), allCodes := s.filterMap (fun c => codeOf ms c.id) }

end

/-- the table: registered entries plus the three caches plus the per-slot `TypeMap` cache key sets -/
structure MMap where
  meths : List Meth := []
  st : St Key Entry (List Nat) := St.empty
  tcache : List (Slot × Ty) := []

def MMap.register (mm : MMap) (m : Meth) : MMap :=
  { meths := mm.meths ++ [m],
    st := cleared mm.st,
    tcache := mm.tcache.filter (fun e => !(m.params.any (fun p => p.1 == e.1))) }

def touchT (cfg : Cfg) (ms : List Meth) (tc : List (Slot × Ty)) (k : Key) : List (Slot × Ty) :=
  k.foldl (fun tc e =>
    match tmLookup cfg ms e.1 e.2 with
    | some (_ :: _) => if tc.contains e then tc else tc ++ [e]
    | _ => tc) tc

/-- does `table[ck]` run `resolve` (hence `mro`, `sort_types`, `typeorder`, `subclasscheck` and with them the
    user's class predicates and hooks)? -/
def MMap.resolvesAt (cfg : Cfg) (mm : MMap) (ck : CKey Key) : Bool :=
  resolves (plan cfg mm.meths) mm.st ck

/-- `table[ck]` -/
def MMap.lookup (cfg : Cfg) (mm : MMap) (ck : CKey Key) : MMap × Res Entry (List Nat) :=
  match ck with
  | (c, k) =>
    -- (the key of a call without arguments, `[]`, goes the same way since the `fix:` for finding D9)
    let resolves := (mm.st.cache (c, k)).isNone && (mm.st.cache (none, k)).isNone
    let (st', r) := Ovld.lookup (plan cfg mm.meths) mm.st (c, k)
    ({ mm with st := st', tcache := if resolves then touchT cfg mm.meths mm.tcache k else mm.tcache }, r)

/-- `table[ck]` interrupted after `n` writes of its resolution -/
def MMap.lookupCut (cfg : Cfg) (mm : MMap) (ck : CKey Key) (n : Nat) : MMap :=
  match ck with
  | (c, k) =>
    let resolves := (mm.st.cache (c, k)).isNone && (mm.st.cache (none, k)).isNone
    { mm with st := Ovld.lookupCut (plan cfg mm.meths) mm.st (c, k) n,
              tcache := if resolves then touchT cfg mm.meths mm.tcache k else mm.tcache }

end Ovld
