/-!
# Layer D (2/3): the three caches of `MultiTypeMap` as a state machine over an abstract resolution plan

`plan k` is what `mro(k)` + the bottom-up half of `resolve(k)` compute for the key `k`
(typemap.py L321-341): per rank the callable (or `none` for a tied static rank), the code objects of
its handlers and the ambiguity error; `allCodes` is what `mro` stores in `self.all[k]`; `fail` says
that the computation raised (graphlib's `CycleError`) before touching any of the three caches.

`writes` is the top-down collection loop of `resolve` as the list of dict writes it prepares (applied in
reverse order, see `ws`);
`lookupTop` / `lookupNext` are `dict.__getitem__` + the branches of `__missing__` (L363-388).
The `*Keys` fields only record which keys have been written, so that the driver can print the key
sets; no definition reads them.
-/
set_option autoImplicit false
namespace Ovld

abbrev Code := Nat

section
variable {K F E : Type}

abbrev CKey (K : Type) := Option Code × K

structure Rank (F E : Type) where
  func : Option F
  codes : List Code
  err : E

structure Plan (F E : Type) where
  ranks : List (Rank F E)
  allCodes : List Code
  fail : Bool := false

inductive Res (F E : Type) | ok (f : F) | amb (e : E) | noMethod | failed | keyError
deriving DecidableEq, Repr

inductive W (K F E : Type) | c (ck : CKey K) (f : F) | e (ck : CKey K) (err : E)

structure St (K F E : Type) where
  cache : CKey K → Option F
  errors : CKey K → Option E
  all : K → Option (List Code)
  cacheKeys : List (CKey K) := []
  errorKeys : List (CKey K) := []
  allKeys : List K := []

def St.empty : St K F E := { cache := fun _ => none, errors := fun _ => none, all := fun _ => none }

/-- the top-down publication loop of `MultiTypeMap.resolve`, as the list of dict writes it performs -/
def writes (k : K) : List (Rank F E) → List Code → List (W K F E)
  | [], _ => []
  | r :: rs, parents =>
    let tups : List (CKey K) := if parents.isEmpty then [(none, k)] else parents.map (fun p => (some p, k))
    match r.func with
    | none => tups.map (fun t => W.e t r.err)
    | some f => tups.map (fun t => W.c t f) ++ (if r.codes.isEmpty then [] else writes k rs r.codes)

variable [DecidableEq K]

def applyW (st : St K F E) : List (W K F E) → St K F E
  | [] => st
  | .c ck f :: ws =>
    applyW { st with cache := fun x => if x = ck then some f else st.cache x, cacheKeys := ck :: st.cacheKeys } ws
  | .e ck err :: ws =>
    applyW { st with errors := fun x => if x = ck then some err else st.errors x, errorKeys := ck :: st.errorKeys } ws

variable (plan : K → Plan F E)

/-- the writes are collected top-down and applied bottom-up: the entry of the looked-up key itself is written
    last (typemap.py, `for table, tup, value in reversed(writes)`) -/
def ws (k : K) : List (W K F E) := (writes k (plan k).ranks []).reverse

/-- `resolve(k)` for a plan that does not fail: `mro` records the candidate codes, then the ranks are published -/
def resolve (k : K) (st : St K F E) : St K F E :=
  applyW { st with all := fun k' => if k' = k then some (plan k).allCodes else st.all k', allKeys := k :: st.allKeys }
    (ws plan k)

/-- ordinary key: `dict.__getitem__`, else `__missing__` (L384-388) -/
def lookupTop (st : St K F E) (k : K) : St K F E × Res F E :=
  match st.cache (none, k) with
  | some f => (st, .ok f)
  | none =>
    if (plan k).fail then (st, .failed) else
    let st' := resolve plan k st
    if (plan k).ranks.isEmpty then (st', .noMethod)
    else match st'.errors (none, k) with
      | some e => (st', .amb e)
      | none => match st'.cache (none, k) with
        | some f => (st', .ok f)
        | none => (st', .keyError)

/-- continuation key `(code, *k)` (L364-375) -/
def lookupNext (st : St K F E) (c : Code) (k : K) : St K F E × Res F E :=
  match st.cache (some c, k) with
  | some f => (st, .ok f)
  | none =>
    match lookupTop plan st k with
    | (st', .ok f) =>
      match st'.all k with
      | none => (st', .keyError)
      | some cs =>
        if !cs.contains c then (st', .ok f)
        else match st'.errors (some c, k) with
          | some e => (st', .amb e)
          | none => match st'.cache (some c, k) with
            | some f' => (st', .ok f')
            | none => (st', .noMethod)
    | (st', r) => (st', r)

def lookup (st : St K F E) : CKey K → St K F E × Res F E
  | (none, k) => lookupTop plan st k
  | (some c, k) => lookupNext plan st c k

def run (st : St K F E) : List (CKey K) → St K F E
  | [] => st
  | ck :: rest => run (lookup plan st ck).1 rest

/-- a resolution of `k` interrupted after `n` of its dict writes (`mro` has recorded `all[k]` before the first) -/
def resolvePartial (k : K) (n : Nat) (st : St K F E) : St K F E :=
  applyW { st with all := fun k' => if k' = k then some (plan k).allCodes else st.all k', allKeys := k :: st.allKeys }
    ((ws plan k).take n)

/-- the state left behind by a lookup whose resolution is interrupted (an exception raised asynchronously)
    after `n` dict writes; a hit and a failing plan write nothing -/
def lookupTopCut (st : St K F E) (k : K) (n : Nat) : St K F E :=
  match st.cache (none, k) with
  | some _ => st
  | none => if (plan k).fail then st else resolvePartial plan k n st

def lookupCut (st : St K F E) : CKey K → Nat → St K F E
  | (none, k), n => lookupTopCut plan st k n
  | (some c, k), n =>
    match st.cache (some c, k) with
    | some _ => st
    | none => lookupTopCut plan st k n

/-- a history of completed and interrupted lookups -/
inductive LOp (K : Type) | look (ck : CKey K) | cut (ck : CKey K) (n : Nat)

def runL (st : St K F E) : List (LOp K) → St K F E
  | [] => st
  | .look ck :: rest => runL (lookup plan st ck).1 rest
  | .cut ck n :: rest => runL (lookupCut plan st ck n) rest

/-- `MultiTypeMap.register` w.r.t. the caches: `self.clear()`, `self.errors.clear()`, `self.all.clear()`
    (typemap.py L209-211; the last two since the `fix:` for finding D2) -/
def cleared (_st : St K F E) : St K F E := St.empty

end
end Ovld
