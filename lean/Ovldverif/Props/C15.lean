import Ovldverif.Model.Normalize
import Ovldverif.Lemmas.Fuel
/-!
# C15 — equivalent spellings of an annotation dispatch identically

Spellings that `normalize` maps to the *same* normal form dispatch identically because everything downstream
(signatures, the table, the order) only sees the normal form.  Reorderings (members of a union, values of a
Literal) give normal forms that differ in order only; for those the theorems show that what they accept and how
they compare with classes is unchanged.
-/
set_option autoImplicit false
namespace Ovld.Norm
open Ovld

/-- `typing.Union[...]` (and `Optional`), `A | B` and the tuple `(A, B)` have one normal form -/
theorem C15_union_spellings (env : Env) (f : Nat) (as : List Ann) :
    normalize env f (.unionT as) = normalize env f (.pipe as) ∧
    normalize env f (.pipe as) = normalize env f (.tup as) := by
  cases f <;> simp [normalize]

/-- a missing annotation, `typing.Any` and `object` -/
theorem C15_missing_any_object (env : Env) (f : Nat) :
    normalize env f .missing = normalize env f .any ∧ normalize env f .any = normalize env f (.cls 0) := by
  cases f <;> simp [normalize]

/-- `Annotated[A, ...]` and `A`, for every `A` (including `Any`, bare `type`, strings, unions) -/
theorem C15_annotated (env : Env) (f : Nat) (a : Ann) :
    normalize env (f + 1) (.annotated a) = normalize env f a := by
  simp [normalize]

/-- a string annotation and the type it names -/
theorem C15_string (env : Env) (f : Nat) (s : String) (a : Ann) (h : env.globals s = some a) :
    normalize env (f + 1) (.name s) = normalize env f a := by
  simp [normalize, h]

/-! ### helpers: `mapE` -/

theorem mapE_mono {α β ε : Type} (F G : α → Except ε β) : ∀ (l : List α) (ys : List β),
    (∀ a ∈ l, ∀ y, F a = .ok y → G a = .ok y) → mapE F l = .ok ys → mapE G l = .ok ys := by
  intro l
  induction l with
  | nil => intro ys _ h; simpa [mapE] using h
  | cons x xs ih =>
    intro ys hm h
    simp only [mapE] at h ⊢
    cases hx : F x with
    | error e => simp [hx] at h
    | ok y =>
      rw [hx] at h
      rw [hm x (by simp) y hx]
      cases hxs : mapE F xs with
      | error e => simp [hxs] at h
      | ok zs =>
        rw [hxs] at h
        rw [ih zs (fun a ha => hm a (by simp [ha])) hxs]
        exact h

theorem map_eq_ok {α β ε : Type} (g : α → β) (x : Except ε α) (t : β) (h : x.map g = .ok t) :
    ∃ y, x = .ok y ∧ g y = t := by
  cases x with
  | error e => cases h
  | ok y => exact ⟨y, rfl, by injection h⟩

/-- more fuel never changes a result (so the two previous statements are about one and the same normal form) -/
theorem normalize_mono (env : Env) (f : Nat) (a : Ann) (t : NTy) (h : normalize env f a = .ok t) :
    normalize env (f + 1) a = .ok t := by
  induction f generalizing a t with
  | zero => simp [normalize] at h
  | succ f ih =>
    have hl : ∀ (as : List Ann) (g : List NTy → NTy),
        (mapE (normalize env f) as).map g = .ok t → (mapE (normalize env (f + 1)) as).map g = .ok t := by
      intro as g hg
      obtain ⟨ys, hy, hgy⟩ := map_eq_ok g _ t hg
      rw [mapE_mono (normalize env f) (normalize env (f + 1)) as ys (fun a _ y hy => ih a y hy) hy]
      simp [Except.map, hgy]
    cases a with
    | name s =>
      rw [normalize] at h ⊢
      cases hs : env.globals s with
      | none => simp [hs] at h
      | some a' => simp only [hs] at h ⊢; exact ih a' t h
    | annotated a' => rw [normalize] at h ⊢; exact ih a' t h
    | bareType => rw [normalize] at h ⊢; exact h
    | any => rw [normalize] at h ⊢; exact h
    | missing => rw [normalize] at h ⊢; exact h
    | cls c => rw [normalize] at h ⊢; exact h
    | typeOf a' => rw [normalize] at h ⊢; exact h
    | literal vals => rw [normalize] at h ⊢; exact h
    | unionT as => rw [normalize] at h ⊢; exact hl as _ h
    | pipe as => rw [normalize] at h ⊢; exact hl as _ h
    | tup as => rw [normalize] at h ⊢; exact hl as _ h
    | tupleG as => rw [normalize] at h ⊢; exact hl as _ h
    | gen o as =>
      rw [normalize] at h ⊢
      cases ho : env.handler o with
      | none => simp [ho] at h
      | some hd => simp only [ho] at h ⊢; exact hl as _ h

theorem Ann.size_pos (a : Ann) : 0 < a.size := by
  cases a <;> simp [Ann.size]

theorem Ann.mem_sizeL {a : Ann} {as : List Ann} (h : a ∈ as) : a.size < Ann.sizeL as := by
  induction as with
  | nil => cases h
  | cons b bs ih =>
    simp only [Ann.sizeL]
    rcases List.mem_cons.mp h with e | e
    · subst e; omega
    · have := ih e; omega

/-- a result is a normal form or a `NameError` -/
def Good (r : Except NErr NTy) : Prop := (∃ t, r = .ok t) ∨ r = .error .nameError

theorem mapE_good (F : Ann → Except NErr NTy) (g : List NTy → NTy) : ∀ (l : List Ann),
    (∀ a ∈ l, Good (F a)) → Good ((mapE F l).map g) := by
  have key : ∀ (l : List Ann), (∀ a ∈ l, Good (F a)) →
      (∃ ys, mapE F l = .ok ys) ∨ mapE F l = .error .nameError := by
    intro l
    induction l with
    | nil => intro _; exact Or.inl ⟨[], rfl⟩
    | cons x xs ih =>
      intro hm
      simp only [mapE]
      rcases hm x (by simp) with ⟨y, hy⟩ | he
      · rw [hy]
        rcases ih (fun a ha => hm a (by simp [ha])) with ⟨ys, hys⟩ | he
        · rw [hys]; exact Or.inl ⟨_, rfl⟩
        · rw [he]; exact Or.inr rfl
      · rw [he]; exact Or.inr rfl
  intro l hm
  rcases key l hm with ⟨ys, hys⟩ | he
  · rw [hys]; exact Or.inl ⟨g ys, rfl⟩
  · rw [he]; exact Or.inr rfl

theorem normalize_good (env : Env) (hn : ∀ s, env.globals s = none) (hh : ∀ o, (env.handler o).isSome) :
    ∀ (f : Nat) (a : Ann), a.size ≤ f → Good (normalize env f a) := by
  intro f
  induction f with
  | zero => intro a h; have := Ann.size_pos a; omega
  | succ f ih =>
    intro a h
    have hl : ∀ (as : List Ann) (g : List NTy → NTy), Ann.sizeL as ≤ f →
        Good ((mapE (normalize env f) as).map g) := fun as g hs =>
      mapE_good _ g as (fun a ha => ih a (by have := Ann.mem_sizeL ha; omega))
    cases a with
    | name s => rw [normalize]; simp only [hn s]; exact Or.inr rfl
    | annotated a' => rw [normalize]; exact ih a' (by simp only [Ann.size] at h; omega)
    | bareType => rw [normalize]; exact Or.inl ⟨_, rfl⟩
    | any => rw [normalize]; exact Or.inl ⟨_, rfl⟩
    | missing => rw [normalize]; exact Or.inl ⟨_, rfl⟩
    | cls c => rw [normalize]; exact Or.inl ⟨_, rfl⟩
    | typeOf a' => rw [normalize]; exact Or.inl ⟨_, rfl⟩
    | literal vals => rw [normalize]; exact Or.inl ⟨_, rfl⟩
    | unionT as => rw [normalize]; exact hl as _ (by simp only [Ann.size] at h; omega)
    | pipe as => rw [normalize]; exact hl as _ (by simp only [Ann.size] at h; omega)
    | tup as => rw [normalize]; exact hl as _ (by simp only [Ann.size] at h; omega)
    | tupleG as => rw [normalize]; exact hl as _ (by simp only [Ann.size] at h; omega)
    | gen o as =>
      rw [normalize]
      have := hh o
      cases ho : env.handler o with
      | none => simp [ho] at this
      | some hd => exact hl as _ (by simp only [Ann.size] at h; omega)

/-- the fuel `size + 1` suffices for an annotation without strings -/
theorem normalize_total (env : Env) (a : Ann) (hn : ∀ s, env.globals s = none) (hh : ∀ o, (env.handler o).isSome) :
    ∃ t, normalize env (a.size + 1) a = .ok t ∨ normalize env (a.size + 1) a = .error .nameError := by
  rcases normalize_good env hn hh (a.size + 1) a (by omega) with ⟨t, ht⟩ | he
  · exact ⟨t, Or.inl ht⟩
  · exact ⟨default, Or.inr he⟩

/-! ### helpers: `defaultBound` -/

/-- the default bound of a `Literal` is a class … -/
theorem defaultBound_cls (env : Env) (vals : List Nat) : ∃ b, defaultBound env vals = .cls b := by
  unfold defaultBound
  cases h : vals.map env.valCls with
  | nil => exact ⟨0, rfl⟩
  | cons c0 cs =>
    simp only
    cases hf : (env.mro c0).find? (fun cand => (c0 :: cs).all (fun c => env.sub c cand)) with
    | none => exact ⟨0, rfl⟩
    | some b => exact ⟨b, rfl⟩

/-- … that every listed value is an instance of (every class being a subclass of `object`, class 0) -/
theorem defaultBound_sound (env : Env) (vals : List Nat) (htop : ∀ c, env.sub c 0 = true) (v : Nat)
    (hv : v ∈ vals) : ∃ b, defaultBound env vals = .cls b ∧ env.sub (env.valCls v) b = true := by
  unfold defaultBound
  have hm : env.valCls v ∈ vals.map env.valCls := List.mem_map.mpr ⟨v, hv, rfl⟩
  cases h : vals.map env.valCls with
  | nil => rw [h] at hm; cases hm
  | cons c0 cs =>
    rw [h] at hm
    simp only
    cases hf : (env.mro c0).find? (fun cand => (c0 :: cs).all (fun c => env.sub c cand)) with
    | none => exact ⟨0, rfl, htop _⟩
    | some b =>
      refine ⟨b, rfl, ?_⟩
      have hb := List.find?_some hf
      exact List.all_eq_true.mp hb _ hm

theorem accepts_lit_cls (H : Hier) (vals : List Nat) (b vcls v f : Nat) (hf : 3 ≤ f) :
    NTy.accepts H vcls v f (.lit vals (.cls b)) = (H.sub vcls b && vals.contains v) := by
  obtain ⟨g, rfl⟩ : ∃ g, f = g + 3 := ⟨f - 3, by omega⟩
  simp only [NTy.accepts]

/-- a `Literal` accepts every listed value — whatever the types of the values and their order -/
theorem C15_literal_exact (H : Hier) (env : Env) (vals : List Nat) (vcls v : Nat) (f : Nat) (hf : 3 ≤ f)
    (hv : v ∈ vals) (hc : vcls = env.valCls v) (hs : env.sub = H.sub) (htop : ∀ c, H.sub c 0 = true) :
    NTy.accepts H vcls v f (.lit vals (defaultBound env vals)) = true := by
  obtain ⟨b, hb, hsub⟩ := defaultBound_sound env vals (by rw [hs]; exact htop) v hv
  rw [hb, accepts_lit_cls H vals b vcls v f hf, hc, ← hs, hsub]
  simpa using hv

/-- … and nothing else -/
theorem C15_literal_only (H : Hier) (env : Env) (vals : List Nat) (vcls v : Nat) (f : Nat) (hv : v ∉ vals) :
    NTy.accepts H vcls v f (.lit vals (defaultBound env vals)) = false := by
  obtain ⟨b, hb⟩ := defaultBound_cls env vals
  rw [hb]
  have hcn : vals.contains v = false := by simpa using hv
  match f with
  | 0 => rfl
  | 1 => simp [NTy.accepts]
  | g + 2 => simp only [NTy.accepts, hcn, Bool.and_false]

/-- the values of a `Literal` in any order: the same values are accepted -/
theorem C15_literal_order (H : Hier) (env : Env) (vals vals' : List Nat) (hp : vals.Perm vals')
    (hs : env.sub = H.sub) (htop : ∀ c, H.sub c 0 = true) (vcls v : Nat) (f : Nat) (hf : 3 ≤ f)
    (hc : v ∈ vals → vcls = env.valCls v) :
    NTy.accepts H vcls v f (.lit vals (defaultBound env vals)) =
      NTy.accepts H vcls v f (.lit vals' (defaultBound env vals')) := by
  by_cases hv : v ∈ vals
  · rw [C15_literal_exact H env vals vcls v f hf hv (hc hv) hs htop,
      C15_literal_exact H env vals' vcls v f hf (hp.mem_iff.mp hv) (hc hv) hs htop]
  · rw [C15_literal_only H env vals vcls v f hv,
      C15_literal_only H env vals' vcls v f (fun h => hv (hp.mem_iff.mpr h))]

/-- the members of a union in any order: the same values are accepted -/
theorem C15_union_order (H : Hier) (ms ms' : List NTy) (hp : ms.Perm ms') (vcls v f : Nat) :
    NTy.accepts H vcls v f (.union ms) = NTy.accepts H vcls v f (.union ms') := by
  cases f with
  | zero => rfl
  | succ f => simp only [NTy.accepts]; exact hp.any_eq

theorem subclasscheck_cls_union (H : Hier) (ts : List Ty) (c : Nat) :
    subclasscheck H (.cls c) (.union ts) = ts.any (fun t => subclasscheck H (.cls c) t) := by
  have hd : subclasscheck H (.cls c) (.union ts) =
      subc H ((Ty.cls c).size + (Ty.union ts).size + 1) (.cls c) (.union ts) := rfl
  rw [hd, subc]
  simp only [Ty.beq, subcNe]
  apply any_congr_mem
  intro t ht
  have := Ty.mem_sizeL ht
  exact subc_fuel H _ _ t (by simp only [Ty.size]; omega)

/-- … the same classes are subtypes (applicability of a method annotated with the union) -/
theorem C15_union_order_subclass (H : Hier) (ts ts' : List Ty) (hp : ts.Perm ts') (c : Nat) :
    subclasscheck H (.cls c) (.union ts) = subclasscheck H (.cls c) (.union ts') := by
  rw [subclasscheck_cls_union, subclasscheck_cls_union]; exact hp.any_eq

theorem unionOrd_perm (l l' : List TOrd) (hp : l.Perm l') : unionOrd l = unionOrd l' := by
  unfold unionOrd
  have hf := hp.filter (fun x => !x.isNone)
  simp only [hf.isEmpty_eq, hf.any_eq]

theorem typeorder_union_cls (H : Hier) (ts : List Ty) (c : Nat) :
    typeorder H (.union ts) (.cls c) = unionOrd (ts.map (fun t => typeorder H t (.cls c))) := by
  have hd : typeorder H (.union ts) (.cls c) =
      tord H ((Ty.union ts).size + (Ty.cls c).size + 1) (.union ts) (.cls c) := rfl
  rw [hd, tord]
  simp only [Ty.beq, hook]
  rw [map_congr_mem ts _ (fun t => typeorder H t (.cls c)) (fun t ht => by
    have := Ty.mem_sizeL ht
    exact tord_fuel H _ t _ (by simp only [Ty.size]; omega))]
  rfl

/-- … and the union compares alike with every class (specificity) -/
theorem C15_union_order_typeorder (H : Hier) (ts ts' : List Ty) (hp : ts.Perm ts') (c : Nat) :
    typeorder H (.union ts) (.cls c) = typeorder H (.union ts') (.cls c) := by
  rw [typeorder_union_cls, typeorder_union_cls]
  exact unionOrd_perm _ _ (hp.map _)

end Ovld.Norm
