import Ovldverif.Spec.Chain
import Ovldverif.Spec.Runs
import Ovldverif.Lemmas.CacheInv
import Ovldverif.Lemmas.PlanOK
import Ovldverif.Lemmas.Candidates
/-!
# Soundness of the table for ANY declared types (core of C01)

No hypothesis on the declared types or on the hierarchy: whatever `sort_types` does with the incomparable /
cyclic / generic types, the batches only contain types that passed the `subclasscheck` filter, so every
candidate — hence every handler mentioned by a published entry — is applicable to the key.
-/
set_option autoImplicit false
namespace Ovld

/-! ## (a) one `TypeMap`: levels only mention registered types that accept the class -/

theorem levels_mem_sound (H : Hier) (cls : Ty) (avail : List Ty) (lv : List (Ty × Nat))
    (hav : avail.Nodup) (h : levels H cls avail = some lv) (t : Ty) (l : Nat) (hm : (t, l) ∈ lv) :
    t ∈ avail ∧ subclasscheck H cls t = true := by
  have ht : t ∈ lv.map (·.1) := List.mem_map.mpr ⟨(t, l), hm, rfl⟩
  unfold levels sortTypes at h
  dsimp only at h
  split at h
  · cases h
  · rename_i bs hbs
    split at hbs
    · cases Option.some.inj hbs
      cases Option.some.inj h
      rw [flatMap_tag_fst (fun i => _ - 1 - i), List.zipIdx_map_fst] at ht
      have hf := (batches_spec _ _ _ _ ((List.filter_sublist).nodup hav)).2 t ht
      exact ⟨(List.mem_filter.mp hf).1, (List.mem_filter.mp hf).2⟩
    · cases hbs

/-! ## (b) one slot -/

theorem tmLookup_sound (cfg : Cfg) (ms : List Meth) (s : Slot) (cls : Ty) (r : List (Nat × Nat))
    (h : tmLookup cfg ms s cls = some r) (id l : Nat) (hm : (id, l) ∈ r) :
    ∃ m ∈ ms, m.id = id ∧ ∃ t, m.tyAt s = some t ∧ subclasscheck cfg.H cls t = true := by
  unfold tmLookup at h
  split at h
  · cases h
  · rename_i lv hlv
    cases Option.some.inj h
    obtain ⟨t, hl, m, hm', hty, hmid⟩ := (mem_tmRes ms s lv id l).mp hm
    exact ⟨m, hm', hmid, t, hty, (levels_mem_sound _ _ _ _ (slotTypes_nodup cfg ms s) hlv t l hl).2⟩

/-! ## (c) the candidates -/

theorem mapM_option_mem {α β : Type} (f : α → Option β) :
    ∀ (l : List α) (rs : List β), l.mapM f = some rs →
      (∀ a ∈ l, ∃ b ∈ rs, f a = some b) ∧ (l ≠ [] → rs ≠ [])
  | [], rs, _ => ⟨fun _ ha => (by cases ha), fun hne => absurd rfl hne⟩
  | a :: l, rs, h => by
    rw [List.mapM_cons] at h
    cases hfa : f a with
    | none => rw [hfa] at h; cases h
    | some b =>
      cases hl : l.mapM f with
      | none => rw [hfa, hl] at h; cases h
      | some bs =>
        rw [hfa, hl] at h
        cases Option.some.inj h
        refine ⟨?_, fun _ hn => by cases hn⟩
        intro x hx
        rcases List.mem_cons.mp hx with rfl | hx'
        · exact ⟨b, List.mem_cons_self, hfa⟩
        · obtain ⟨y, hy, hfy⟩ := (mapM_option_mem f l bs hl).1 x hx'
          exact ⟨y, List.mem_cons_of_mem _ hy, hfy⟩

/-- every candidate is a registered method applicable to the key -/
theorem candidates_sound (cfg : Cfg) (ms : List Meth) (hid : (ms.map (·.id)).Nodup) (k : Key) (hne : k ≠ [])
    (cs : List Cand) (h : candidates cfg ms k = some cs) (c : Cand) (hc : c ∈ cs) :
    ∃ m ∈ ms, m.id = c.id ∧ applicableTo cfg.H k m = true := by
  unfold candidates at h
  split at h
  · cases h
  · rename_i rs hrs
    cases Option.some.inj h
    obtain ⟨id, hidm, rfl⟩ := List.mem_map.mp hc
    rw [(List.mergeSort_perm _ _).mem_iff] at hidm
    simp only [List.isEmpty_eq_false_iff.mpr hne, Bool.false_eq_true, if_false] at hidm
    unfold slotResults at hrs
    obtain ⟨hall, hnn⟩ := mapM_option_mem _ k rs hrs
    have hin := (mem_candIds rs (hnn hne) id).mp hidm
    -- per key entry: the method with this id, its arity check and its declared type in the slot
    have hslot : ∀ e ∈ k, ∃ m ∈ ms, m.id = id ∧ sigOK ms (keyNargs k) (keyNames k) id = true ∧
        ∃ t, m.tyAt e.1 = some t ∧ subclasscheck cfg.H e.2 t = true := by
      rintro ⟨s, cls⟩ he
      obtain ⟨r, hr, hfr⟩ := hall (s, cls) he
      dsimp only at hfr
      split at hfr
      · cases hfr
      · rename_i r0 hr0
        cases Option.some.inj hfr
        obtain ⟨⟨id', l⟩, hp, e'⟩ := List.mem_map.mp (hin _ hr)
        dsimp only at e'
        subst e'
        obtain ⟨hp0, hsig⟩ := List.mem_filter.mp hp
        obtain ⟨m, hm, hmid, ht⟩ := tmLookup_sound cfg ms s cls r0 hr0 id' l hp0
        exact ⟨m, hm, hmid, hsig, ht⟩
    obtain ⟨e0, k', rfl⟩ : ∃ e0 k', k = e0 :: k' := by
      cases k with
      | nil => exact absurd rfl hne
      | cons a b => exact ⟨a, b, rfl⟩
    obtain ⟨m, hm, hmid, hsig, _⟩ := hslot e0 List.mem_cons_self
    refine ⟨m, hm, hmid, (applicableTo_iff cfg _ m).mpr ⟨?_, ?_⟩⟩
    · rw [← sigOK_of_mem ms hid m hm, hmid]; exact hsig
    · intro e he
      obtain ⟨m', hm', hmid', _, ht⟩ := hslot e he
      have : m' = m := eq_of_nodup_map (·.id) ms hid m' hm' m hm (hmid'.trans hmid.symm)
      subst this
      exact ht

/-- the same without the hypothesis `k ≠ []`: the candidates of the call without arguments are the methods that
    require no argument (`candidates_ok_nil`) -/
theorem candidates_sound_all (cfg : Cfg) (ms : List Meth) (hid : (ms.map (·.id)).Nodup) (k : Key)
    (cs : List Cand) (h : candidates cfg ms k = some cs) (c : Cand) (hc : c ∈ cs) :
    ∃ m ∈ ms, m.id = c.id ∧ applicableTo cfg.H k m = true := by
  by_cases hne : k = []
  · subst hne
    obtain ⟨cs', hcs', ok⟩ := candidates_ok_nil cfg ms hid
    rw [h] at hcs'
    cases Option.some.inj hcs'
    obtain ⟨m, hm, hmid, happ, _⟩ := ok.sound c hc
    exact ⟨m, hm, hmid, happ⟩
  · exact candidates_sound cfg ms hid k hne cs h c hc

/-! ## (d) the entries built by the bottom-up half of `resolve` -/

/-- the fall-through entry of a dependent dispatcher: the callable of the next rank, or the ambiguity of a tied
    next rank -/
def nxtOf (below : List (Rank Entry (List Nat))) : Entry :=
  match below with
  | r :: _ => (match r.func with | some e => e | none => Entry.ambNext r.err)
  | [] => Entry.noNext

theorem mkRanks_cons (ms : List Meth) (g : List Cand) (gs : List (List Cand)) :
    mkRanks ms (g :: gs) =
      { func :=
          if (g.map (·.id)).any (fun id => ((findMeth ms id).map Meth.dependent).getD false) then
            some (Entry.dep (g.map (·.id)) (nxtOf (mkRanks ms gs)))
          else match g.map (·.id) with
            | [id] => some (Entry.meth id)
            | _ => none,
        codes := (g.map (·.id)).filterMap (codeOf ms), err := g.map (·.id) } :: mkRanks ms gs := rfl

theorem nxtOf_handlers (below : List (Rank Entry (List Nat))) (id : Nat) (h : id ∈ (nxtOf below).handlers) :
    ∃ r ∈ below, (∃ e, r.func = some e ∧ id ∈ e.handlers) ∨ id ∈ r.err := by
  cases below with
  | nil => simp [nxtOf, Entry.handlers] at h
  | cons r rest =>
    cases hf : r.func with
    | none =>
      simp only [nxtOf, hf, Entry.handlers] at h
      exact ⟨r, List.mem_cons_self, Or.inr h⟩
    | some e =>
      simp only [nxtOf, hf] at h
      exact ⟨r, List.mem_cons_self, Or.inl ⟨e, hf, h⟩⟩

/-- the ids a rank reports as its ambiguity are ids of candidates -/
theorem mkRanks_err (ms : List Meth) : ∀ (gs : List (List Cand)) (r : Rank Entry (List Nat)),
    r ∈ mkRanks ms gs → ∀ id ∈ r.err, ∃ c ∈ gs.flatten, c.id = id := by
  intro gs
  induction gs with
  | nil => intro r hr; cases hr
  | cons g gs ih =>
    intro r hr id hid
    rw [mkRanks_cons] at hr
    rw [List.flatten_cons]
    rcases List.mem_cons.mp hr with rfl | hr'
    · dsimp only at hid
      obtain ⟨c, hc, hcid⟩ := List.mem_map.mp hid
      exact ⟨c, List.mem_append_left _ hc, hcid⟩
    · obtain ⟨c, hc, hcid⟩ := ih r hr' id hid
      exact ⟨c, List.mem_append_right _ hc, hcid⟩

theorem mkRanks_handlers (ms : List Meth) : ∀ (gs : List (List Cand)) (r : Rank Entry (List Nat)),
    r ∈ mkRanks ms gs → ∀ e, r.func = some e → ∀ id ∈ e.handlers, ∃ c ∈ gs.flatten, c.id = id := by
  intro gs
  induction gs with
  | nil => intro r hr; cases hr
  | cons g gs ih =>
    intro r hr e he id hid
    rw [mkRanks_cons] at hr
    rw [List.flatten_cons]
    have lift : (∃ c ∈ gs.flatten, c.id = id) → ∃ c ∈ g ++ gs.flatten, c.id = id :=
      fun ⟨c, hc, hcid⟩ => ⟨c, List.mem_append_right _ hc, hcid⟩
    have ofG : id ∈ g.map (·.id) → ∃ c ∈ g ++ gs.flatten, c.id = id := by
      intro hmem
      obtain ⟨c, hc, hcid⟩ := List.mem_map.mp hmem
      exact ⟨c, List.mem_append_left _ hc, hcid⟩
    rcases List.mem_cons.mp hr with rfl | hr'
    · dsimp only at he
      split at he
      · cases Option.some.inj he
        rw [Entry.handlers] at hid
        rcases List.mem_append.mp hid with h1 | h2
        · exact ofG h1
        · obtain ⟨r', hr', ⟨e', he', hid'⟩ | herr⟩ := nxtOf_handlers _ id h2
          · exact lift (ih r' hr' e' he' id hid')
          · exact lift (mkRanks_err ms gs r' hr' id herr)
      · split at he
        · rename_i id' hids
          cases Option.some.inj he
          rw [Entry.handlers, List.mem_singleton] at hid
          subst hid
          apply ofG
          rw [hids]
          exact List.mem_cons_self
        · cases he
    · exact lift (ih r hr' e he id hid)

/-! ## (e) everything a lookup returns was published as the callable of some rank -/

section
variable {K F E : Type}

theorem writes_c_func (k : K) : ∀ (rs : List (Rank F E)) (ps : List Code) (ck : CKey K) (f : F),
    (W.c ck f : W K F E) ∈ writes k rs ps → ∃ r ∈ rs, r.func = some f := by
  intro rs
  induction rs with
  | nil => intro ps ck f h; simp [writes] at h
  | cons r rs ih =>
    intro ps ck f h
    rw [writes_cons] at h
    cases hf : r.func with
    | none =>
      rw [hf] at h
      simp at h
    | some g =>
      rw [hf] at h
      simp only [List.mem_append, List.mem_map] at h
      rcases h with ⟨t, _, hteq⟩ | h
      · have : g = f := by injection hteq
        subst this
        exact ⟨r, List.mem_cons_self, hf⟩
      · cases hc : r.codes.isEmpty with
        | true => rw [hc] at h; simp at h
        | false =>
          rw [hc] at h
          simp only [Bool.false_eq_true, if_false] at h
          obtain ⟨r', hr', hf'⟩ := ih r.codes ck f h
          exact ⟨r', List.mem_cons_of_mem _ hr', hf'⟩

variable [DecidableEq K] (plan : K → Plan F E)

theorem pureTop_ok_written (k : K) (f : F) (h : pureTop plan k = .ok f) :
    lastC (none, k) (ws plan k) = some f := by
  unfold pureTop at h
  split at h
  · cases h
  · split at h
    · cases h
    · split at h
      · cases h
      · split at h
        · rename_i g hg
          cases h
          exact hg
        · cases h

theorem pureNext_ok_written (c : Code) (k : K) (f : F) (h : pureNext plan c k = .ok f) :
    ∃ ck : CKey K, lastC ck (ws plan k) = some f := by
  unfold pureNext at h
  split at h
  · rename_i g hg
    split at h
    · cases h
      exact ⟨_, pureTop_ok_written plan k _ hg⟩
    · split at h
      · cases h
      · split at h
        · rename_i f' hf'
          cases h
          exact ⟨_, hf'⟩
        · cases h
  · rename_i hr
    exact absurd h (hr f)

theorem pureLookup_ok_rank (c : Option Code) (k : K) (f : F) (h : pureLookup plan (c, k) = .ok f) :
    ∃ r ∈ (plan k).ranks, r.func = some f := by
  have hw : ∃ ck : CKey K, lastC ck (ws plan k) = some f := by
    cases c with
    | none => exact ⟨_, pureTop_ok_written plan k f h⟩
    | some c => exact pureNext_ok_written plan c k f h
  obtain ⟨ck, hck⟩ := hw
  have hm := (mem_ws plan k _).1 (lastC_mem _ _ _ hck)
  exact writes_c_func k _ _ _ _ hm

end

/-! ## the chain -/

theorem lookup_applicable_all (cfg : Cfg) (ms : List Meth) (hid : (ms.map (·.id)).Nodup) (c : Option Code) (k : Key)
    (e : Entry) (h : pureLookup (plan cfg ms) (c, k) = .ok e) :
    ∀ id ∈ e.handlers, ∃ m ∈ ms, m.id = id ∧ applicableTo cfg.H k m = true := by
  obtain ⟨r, hr, hf⟩ := pureLookup_ok_rank (plan cfg ms) c k e h
  unfold plan at hr
  cases hc : candidates cfg ms k with
  | none => rw [hc] at hr; cases hr
  | some cs =>
    rw [hc] at hr
    dsimp only at hr
    intro id hidm
    obtain ⟨cand, hcand, rfl⟩ := mkRanks_handlers ms _ r hr e hf id hidm
    have hnd := candidates_nodup cfg ms hid k cs hc
    have hs := ((pull_spec _ _ [] (sortCands_ids_nodup cs hnd)).2 cand hcand).1
    have hcs : cand ∈ cs := (List.mergeSort_perm _ _).mem_iff.mp hs
    exact candidates_sound_all cfg ms hid k cs hc cand hcs

theorem lookup_applicable (cfg : Cfg) (ms : List Meth) (hid : (ms.map (·.id)).Nodup) (c : Option Code) (k : Key)
    (_hne : k ≠ []) (e : Entry) (h : pureLookup (plan cfg ms) (c, k) = .ok e) :
    ∀ id ∈ e.handlers, ∃ m ∈ ms, m.id = id ∧ applicableTo cfg.H k m = true :=
  lookup_applicable_all cfg ms hid c k e h

end Ovld
