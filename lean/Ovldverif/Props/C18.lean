import Ovldverif.Model.Build
/-!
# C18 — a failed build never leaves a half-built function in service

`Safe s`: the generated entry point is in service only together with a complete table: either the first-call
trampoline is installed (every call then starts by building everything again, and reports the problem again
if it persists) or the function is flagged built, its entry point was generated from the current method set and
its table holds exactly the current method set.

The theorems quantify over every method set, every set of invalid methods (`Cfg.bad`, `Cfg.namesOK`), every
micro-step at which an interrupt strikes (`fault : Option Nat` of every operation) and every history of
register / unregister / call operations, each with its own fault.  The only excluded window is `Op.inGap`
(finding D34: the definitions of a built function changed, the interrupt arrives before the rebuild starts),
for which `C18_gap_counterexample` exhibits the stale table.
-/
set_option autoImplicit false
namespace Ovld.Build

def AllGood (cfg : Cfg) (ds : List Nat) : Prop := cfg.namesOK ds = true ∧ ∀ d ∈ ds, cfg.bad d = false

def Safe (s : S) : Prop :=
  (s.entry = none ∧ s.compiled = false) ∨ (s.compiled = true ∧ s.entry = some s.defns ∧ s.table = s.defns)

theorem fill_spec (cfg : Cfg) : ∀ (ds table : List Nat) (f : Option Nat),
    (fill cfg table ds f).2.1 = true →
      (fill cfg table ds f).1 = table ++ ds ∧ ∀ d ∈ ds, cfg.bad d = false := by
  intro ds
  induction ds with
  | nil => intro table f _; simp [fill]
  | cons d ds ih =>
    intro table f h
    unfold fill at h ⊢
    by_cases h1 : strikes f = true
    · simp [h1] at h
    · by_cases h2 : cfg.bad d = true
      · simp [h1, h2] at h
      · simp only [h1, h2] at h ⊢
        have := ih _ _ h
        simp at h2
        refine ⟨by simpa using this.1, ?_⟩
        intro x hx
        rcases List.mem_cons.1 hx with rfl | hx
        · exact h2
        · exact this.2 x hx

theorem fill_complete (cfg : Cfg) : ∀ (ds table : List Nat),
    (∀ d ∈ ds, cfg.bad d = false) → fill cfg table ds none = (table ++ ds, true, none) := by
  intro ds
  induction ds with
  | nil => intro table _; simp [fill]
  | cons d ds ih =>
    intro table h
    have hd : cfg.bad d = false := h d (List.mem_cons_self ..)
    have := ih (table ++ [d]) (fun x hx => h x (List.mem_cons_of_mem _ hx))
    simp [fill, strikes, hd, dec, this]

theorem compileRaw_spec (cfg : Cfg) (s : S) (f : Option Nat) :
    (compileRaw cfg s f).1.defns = s.defns ∧
    ((compileRaw cfg s f).2.1 = true →
      (compileRaw cfg s f).1.compiled = true ∧ (compileRaw cfg s f).1.entry = some s.defns ∧
      (compileRaw cfg s f).1.table = s.defns ∧ AllGood cfg s.defns) := by
  unfold compileRaw
  split
  · simp
  dsimp only
  split
  · simp
  split
  · simp
  · rename_i hn
    simp at hn
    split
    · simp
    · rename_i t f' heq
      have := fill_spec cfg _ _ _ (by rw [heq])
      rw [heq] at this
      simp at this
      split
      · simp
      split
      · simp
      · exact ⟨rfl, fun _ => ⟨rfl, rfl, this.1, hn, this.2⟩⟩


theorem handler_safe (s : S) : Safe (handler s) := Or.inl ⟨rfl, rfl⟩

/-- whatever state a build starts from and wherever it fails, it ends `Safe`; it never changes the definitions -/
theorem compile_safe (cfg : Cfg) (s : S) (f : Option Nat) :
    Safe (compile cfg s f).1 ∧ (compile cfg s f).1.defns = s.defns := by
  have hsp := compileRaw_spec cfg s f
  unfold compile
  rcases h : compileRaw cfg s f with ⟨s', b, f'⟩
  rw [h] at hsp
  cases b
  · exact ⟨Or.inl ⟨rfl, rfl⟩, hsp.1⟩
  · obtain ⟨h1, h2, h3, _⟩ := hsp.2 rfl
    refine ⟨Or.inr ⟨h1, ?_, ?_⟩, hsp.1⟩
    · show s'.entry = some s'.defns
      rw [h2]; exact congrArg some hsp.1.symm
    · show s'.table = s'.defns
      rw [h3]; exact hsp.1.symm

/-- a build that reports success has installed the entry point and the complete table of a valid method set -/
theorem compile_ok (cfg : Cfg) (s : S) (f : Option Nat) (h : (compile cfg s f).2.1 = true) :
    (compile cfg s f).1.compiled = true ∧ (compile cfg s f).1.entry = some s.defns ∧
      (compile cfg s f).1.table = s.defns ∧ AllGood cfg s.defns := by
  have hsp := compileRaw_spec cfg s f
  unfold compile at h ⊢
  rcases hc : compileRaw cfg s f with ⟨s', b, f'⟩
  rw [hc] at hsp h
  cases b
  · simp at h
  · exact hsp.2 rfl

/-- a build of a valid method set that is not interrupted succeeds -/
theorem compile_succeeds (cfg : Cfg) (s : S) (h : AllGood cfg s.defns) : (compile cfg s none).2.1 = true := by
  have hf := fill_complete cfg s.defns [] h.2
  simp [compile, compileRaw, strikes, dec, h.1, hf]

theorem compile_cases (cfg : Cfg) (s : S) (f : Option Nat) :
    ∃ s' f', (compile cfg s f = (s', true, f') ∧ s'.compiled = true ∧ s'.entry = some s.defns ∧
        s'.table = s.defns ∧ s'.defns = s.defns ∧ AllGood cfg s.defns) ∨
      (compile cfg s f = (s', false, f') ∧ s'.entry = none ∧ s'.compiled = false ∧ s'.defns = s.defns) := by
  have hok := compile_ok cfg s f
  have hsafe := compile_safe cfg s f
  rcases hc : compile cfg s f with ⟨s', b, f'⟩
  rw [hc] at hok hsafe
  refine ⟨s', f', ?_⟩
  cases b
  · right
    -- a failed build went through the handler
    have : (compile cfg s f).1.entry = none ∧ (compile cfg s f).1.compiled = false := by
      unfold compile at hc ⊢
      rcases hr : compileRaw cfg s f with ⟨s'', b', f''⟩
      rw [hr] at hc
      cases b'
      · exact ⟨rfl, rfl⟩
      · simp at hc
    rw [hc] at this
    exact ⟨rfl, this.1, this.2, hsafe.2⟩
  · left
    obtain ⟨h1, h2, h3, h4⟩ := hok rfl
    exact ⟨rfl, h1, h2, h3, hsafe.2, h4⟩

theorem safe_of_entry_none {s : S} (h : s.entry = none) (hc : s.compiled = false) : Safe s := Or.inl ⟨h, hc⟩

theorem safe_built {s' s : S} (h1 : s'.compiled = true) (h2 : s'.entry = some s.defns)
    (h3 : s'.table = s.defns) (h4 : s'.defns = s.defns) : Safe s' :=
  Or.inr ⟨h1, by rw [h2, h4], by rw [h3, h4]⟩

theorem dispatchCall_spec (cfg : Cfg) (s : S) (f : Option Nat) (hs : Safe s) :
    ((dispatchCall cfg s f).2 = .error ∨ (dispatchCall cfg s f).2 = .served s.defns s.defns) ∧
      Safe (dispatchCall cfg s f).1 ∧ (dispatchCall cfg s f).1.defns = s.defns ∧
      (f = none → AllGood cfg s.defns → (dispatchCall cfg s f).2 = .served s.defns s.defns) := by
  unfold dispatchCall
  split
  · rename_i e he
    rcases hs with hs | ⟨_, h2, h3⟩
    · rw [hs.1] at he; cases he
    · rw [h2] at he; cases he
      simp [h3]
      exact Or.inr ⟨‹_›, h2, h3⟩
  · rename_i he
    have hnc : s.compiled = false := by
      rcases hs with hs | ⟨_, h2, _⟩
      · exact hs.2
      · rw [h2] at he; cases he
    rw [if_neg (by simp [hnc])]
    rcases compile_cases cfg s f with ⟨s', f', ⟨hc, h1, h2, h3, h4, _⟩ | ⟨hc, h1, h1', h2⟩⟩
    · rw [hc]
      simp [h2, h3, h4]
      exact safe_built h1 h2 h3 h4
    · rw [hc]
      refine ⟨Or.inl rfl, Or.inl ⟨h1, h1'⟩, h2, ?_⟩
      intro hf hg
      subst hf
      have := compile_succeeds cfg s hg
      rw [hc] at this
      simp at this

theorem call_spec (cfg : Cfg) (s : S) (r : Route) (f : Option Nat) (hs : Safe s) :
    ((call cfg s r f).2 = .error ∨ (call cfg s r f).2 = .served s.defns s.defns) ∧
      Safe (call cfg s r f).1 ∧ (call cfg s r f).1.defns = s.defns ∧
      (f = none → AllGood cfg s.defns → (call cfg s r f).2 = .served s.defns s.defns) := by
  unfold call
  cases r with
  | fn => exact dispatchCall_spec cfg s f hs
  | obj =>
    dsimp only
    split
    · rcases compile_cases cfg s f with ⟨s', f', ⟨hc, h1, h2, h3, h4, _⟩ | ⟨hc, h1, h1', h2⟩⟩
      · rw [hc]
        dsimp only
        have hd : dispatchCall cfg s' f' = (s', .served s.defns s.defns) := by
          unfold dispatchCall; rw [h2, h3]
        rw [hd]
        exact ⟨Or.inr rfl, safe_built h1 h2 h3 h4, h4, fun _ _ => rfl⟩
      · rw [hc]
        refine ⟨Or.inl rfl, Or.inl ⟨h1, h1'⟩, h2, ?_⟩
        intro hf hg
        subst hf
        have := compile_succeeds cfg s hg
        rw [hc] at this
        simp at this
    · exact dispatchCall_spec cfg s f hs

theorem update_safe (cfg : Cfg) (s : S) (f : Option Nat) (hs : s.compiled = false → s.entry = none) :
    Safe (update cfg s f).1 := by
  unfold update
  split
  · rcases hc : compile cfg s f with ⟨s', b, f'⟩
    have := (compile_safe cfg s f).1
    rw [hc] at this
    cases b <;> exact this
  · rename_i h
    simp at h
    exact Or.inl ⟨hs h, h⟩

theorem entry_none_of_not_compiled {s : S} (hs : Safe s) (h : s.compiled = false) : s.entry = none := by
  rcases hs with hs | ⟨h1, _, _⟩
  · exact hs.1
  · rw [h] at h1; cases h1

theorem strikes_dec {f : Option Nat} (h1 : strikes f = false) (h2 : strikes (dec f) = true) : f = some 1 := by
  match f, h1, h2 with
  | none, _, h2 => simp [dec, strikes] at h2
  | some 0, h1, _ => simp [strikes] at h1
  | some 1, _, _ => rfl
  | some (n+2), _, h2 => simp [dec, strikes] at h2

/-- **C18, one step**: every operation, interrupted anywhere outside the D34 window or failing naturally anywhere,
    keeps the function `Safe` -/
theorem C18_step_safe (cfg : Cfg) (s : S) (op : Op) (hs : Safe s) (hg : op.inGap s = false) :
    Safe (step cfg s op).1 := by
  cases op with
  | call r f => exact (call_spec cfg s r f hs).2.1
  | register d f =>
    show Safe (register cfg s d f).1
    unfold register
    split
    · exact hs
    dsimp only
    rename_i h0
    simp at h0
    split
    · rename_i h1
      have hf := strikes_dec h0 h1
      subst hf
      have hc : s.compiled = false := hg
      exact Or.inl ⟨entry_none_of_not_compiled (s := s) hs hc, hc⟩
    · apply update_safe
      intro hc
      exact entry_none_of_not_compiled (s := s) hs hc
  | unregister d f =>
    show Safe (unregister cfg s d f).1
    unfold unregister
    split
    · exact hs
    dsimp only
    rename_i h0
    simp at h0
    split
    · rename_i h1
      have hf := strikes_dec h0 h1
      subst hf
      have hc : s.compiled = false := hg
      exact Or.inl ⟨entry_none_of_not_compiled (s := s) hs hc, hc⟩
    · apply update_safe
      intro hc
      exact entry_none_of_not_compiled (s := s) hs hc

theorem runOps_safe (cfg : Cfg) : ∀ (ops : List Op) (s : S), Safe s → opsNoGap cfg s ops = true →
    Safe (runOps cfg s ops) := by
  intro ops
  induction ops with
  | nil => intro s hs _; exact hs
  | cons op rest ih =>
    intro s hs hg
    simp [opsNoGap] at hg
    exact ih _ (C18_step_safe cfg s op hs hg.1) hg.2

/-- **C18, every history** of registrations, removals and calls, each interrupted at an arbitrary micro-step -/
theorem C18_safe (cfg : Cfg) (ops : List Op) (hg : opsNoGap cfg {} ops = true) : Safe (runOps cfg {} ops) :=
  runOps_safe cfg ops {} (Or.inl ⟨rfl, rfl⟩) hg

/-- **later calls** (through the function object or through the dispatch function, themselves possibly
    interrupted) either fail or are answered by the entry point of the complete method set over the complete
    table — never over a partially filled one — and leave the function `Safe` -/
theorem C18_call (cfg : Cfg) (s : S) (r : Route) (f : Option Nat) (hs : Safe s) :
    ((call cfg s r f).2 = .error ∨ (call cfg s r f).2 = .served s.defns s.defns) ∧
      Safe (call cfg s r f).1 ∧ (call cfg s r f).1.defns = s.defns :=
  let h := call_spec cfg s r f hs
  ⟨h.1, h.2.1, h.2.2.1⟩

/-- an uninterrupted call fails only if the method set really contains an offending method -/
theorem C18_error_is_configuration (cfg : Cfg) (s : S) (r : Route) (hs : Safe s)
    (he : (call cfg s r none).2 = .error) : ¬ AllGood cfg s.defns := by
  intro hg
  have := (call_spec cfg s r none hs).2.2.2 rfl hg
  rw [this] at he
  cases he

/-- **once the offending method is removed the function works normally** -/
theorem C18_recovers (cfg : Cfg) (s : S) (r : Route) (hs : Safe s) (hg : AllGood cfg s.defns) :
    (call cfg s r none).2 = .served s.defns s.defns :=
  (call_spec cfg s r none hs).2.2.2 rfl hg

/-- the excluded window is real (finding D34): register on a built function, interrupted between the change of the
    definitions and the rebuild, leaves the old table in service -/
theorem C18_gap_counterexample :
    let cfg : Cfg := ⟨fun _ => false, fun _ => true⟩
    let s := runOps cfg {} [.register 1 none, .call .obj none, .register 2 (some 1)]
    ¬ Safe s ∧ (call cfg s .obj none).2 = .served [1] [1] ∧ s.defns = [1, 2] := by
  intro cfg s
  have hs : s = { defns := [1, 2], compiled := true, entry := some [1], table := [1] } := by decide
  rw [hs]
  refine ⟨?_, by decide, rfl⟩
  unfold Safe
  decide

/-- non-vacuity: a history with a natural failure, an interrupt in the middle of the fill loop and a removal.
    Budget `some 3` of the third operation: one tick for `table := []`, one for the argument analysis, one for the
    registration of method 1, and the interrupt strikes before method 2 is registered (last conjunct: the state the
    handler finds has the half-filled table `[1]` and still the trampoline as entry point). -/
example :
    let cfg : Cfg := ⟨fun d => d == 3, fun _ => true⟩
    let ops : List Op := [.register 1 none, .register 2 none, .call .fn (some 3), .register 3 none, .call .obj none,
      .unregister 3 none, .call .fn none]
    opsNoGap cfg {} ops = true ∧ (runOps cfg {} ops).table = [1, 2] ∧
      (step cfg (runOps cfg {} (ops.take 4)) (.call .obj none)).2 = .error ∧
      (compileRaw cfg (runOps cfg {} (ops.take 2)) (some 3)).1 = { defns := [1, 2], table := [1] } := by
  decide

end Ovld.Build
