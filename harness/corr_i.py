"""Correspondence layer I: the build state machine of a real Ovld (register / unregister / call through the object and
through the dispatch function, with natural failures and with an exception injected at the n-th executed library
line) vs the Lean model `Model/Build.lean`.

Compared after every operation: the definitions, the `_compiled` flag, whether the entry point in service is the
trampoline or generated code, the methods registered in the current table, and whether the operation ended in an
error or in a dispatch answer.  For an injected fault the micro-step of the model is found from the state observed
at the instant of the fault (the driver matches it against the model's own sequence of build states, so the
ORDER of the state changes of `_compile` is compared too); `trace` operations compare that order for an
uninterrupted build."""

import linecache
import random
import sys

from check_build import SRC, Injected, Scenario, cfg_error, held_dispatch
from common import run_driver, use_repo

use_repo()

STATS = {}
NATURAL = ["names", "positions", "call_next", "nosource"]


def observe(ov):
    ident = ov._verif_ident
    defns = [ident[f.__code__.co_filename] for f in ov.defns.values()]
    table = []
    if hasattr(ov, "map"):
        table = [ident[h.__code__.co_filename] for h in ov.map.priorities]
    gen = hasattr(ov, "dispatch") and held_dispatch(ov).__code__.co_filename.startswith("<ovld:")
    return {"defns": defns, "compiled": bool(ov._compiled), "entry": gen, "table": table}


class ObsTracer:
    def __init__(self, n, ov):
        self.n, self.ov = n, ov
        self.count = 0
        self.fired = False
        self.pre = None
        self.stack = []
        self.line = ""

    def glob(self, frame, event, arg):
        fn = frame.f_code.co_filename
        if fn.startswith(SRC) or fn.startswith("<ovld:"):
            return self.local
        return None

    def local(self, frame, event, arg):
        if event == "line" and not self.fired:
            self.count += 1
            if self.count == self.n:
                self.fired = True
                f = frame
                while f is not None:
                    self.stack.append(f.f_code.co_name)
                    f = f.f_back
                self.line = (linecache.getline(frame.f_code.co_filename, frame.f_lineno) or "").strip()
                self.pre = observe(self.ov)
                raise Injected()
        return self.local


def next_op(rng, k, has_bad, cur, left):
    """the next operation given the definitions the real function currently has"""
    ids = list(range(k)) + ([99] if has_bad else [])
    valid_in = [d for d in cur if d != 99]
    fault = rng.randint(1, 260) if rng.random() < 0.45 else None
    if not valid_in:
        return ["reg", rng.choice([i for i in range(k) if i not in cur]), fault if cur else None, False]
    if left <= 0:
        return None
    r = rng.random()
    trace = fault is None and rng.random() < 0.5
    if r < 0.35 and len(cur) < len(ids):
        return ["reg", rng.choice([i for i in ids if i not in cur]), fault, trace]
    if r < 0.45 and (len(valid_in) > 1 or 99 in cur):
        d = rng.choice([x for x in cur if x == 99 or len(valid_in) > 1])
        return ["unreg", d, fault, trace]
    return ["call", rng.choice(["obj", "fn"]), fault, trace, rng.randrange(k + 1)]


def run_real(sc, rng, k, has_bad, fixed_ops=None):
    from ovld import Ovld

    ov = Ovld()
    ov._verif_ident = {f.__code__.co_filename: i for i, f in enumerate(sc.fns)}
    if sc.bad is not None:
        ov._verif_ident[sc.bad.__code__.co_filename] = 99
    probes = sc.probes()
    out, ops = [], []
    left = rng.randint(4, 10)
    tail = None
    it = iter(fixed_ops) if fixed_ops is not None else None
    while True:
        if it is not None:
            op = next(it, None)
            if op is None:
                break
        else:
            cur = observe(ov)["defns"]
            op = next_op(rng, k, has_bad, cur, left) if tail is None else (tail.pop(0) if tail else None)
            left -= 1
            if op is None and tail is None:
                # probes at the end through both routes
                tail = [["call", rng.choice(["obj", "fn"]), None, False, a] for a in range(k + 1)]
                continue
            if op is None:
                break
        ops.append(op)
        kind, fault, want_trace = op[0], op[2], op[3]
        before = observe(ov)
        tr = ObsTracer(fault, ov) if fault else None
        seq = []

        def loc(frame, event, arg, _seq=seq):
            if event == "line":
                o = observe(ov)
                if not _seq or _seq[-1] != o:
                    _seq.append(o)
            return loc

        def glob(frame, event, arg):
            if frame.f_code.co_filename.startswith(SRC) and frame.f_code.co_name == "_compile":
                return loc
            return None

        old = sys.gettrace()
        res = None
        if tr:
            sys.settrace(tr.glob)
        elif want_trace:
            sys.settrace(glob)
        try:
            try:
                if kind == "reg":
                    ov.register(sc.fn_of("bad" if op[1] == 99 else op[1]))
                    res = ("done",)
                elif kind == "unreg":
                    ov.unregister(sc.fn_of("bad" if op[1] == 99 else op[1]))
                    res = ("done",)
                else:
                    target = ov if op[1] == "obj" else held_dispatch(ov)
                    r = target(probes[op[4]])
                    res = ("ok", repr(r)[:60])
            except Injected:
                res = ("injected",)
            except BaseException as e:  # noqa
                res = ("error", type(e).__name__, str(e)[:80])
        finally:
            if tr or want_trace:
                sys.settrace(old)
        rec = {"res": res, "s": observe(ov), "before": before}
        if want_trace and not tr and seq:
            seq.append(rec["s"])
            ded = []
            for o in seq:
                if not ded or ded[-1] != o:
                    ded.append(o)
            rec["trace"] = ded
        if tr and tr.fired:
            stack = tr.stack
            built = tr.pre["compiled"] and tr.pre["entry"] and tr.pre["table"] == tr.pre["defns"]
            if "_compile" in stack or (stack and stack[0] == "compile" and tr.line == "self._compile()"):
                phase = "compile"
            elif kind == "call":
                # before the build started, or after it completed (the fault fell in the lookup / the method)
                phase = "after" if built else "pre"
            elif tr.pre["defns"] != before["defns"]:
                # the definitions changed; has the rebuild already completed?
                phase = "after" if (built and before["compiled"] and "compile" not in stack) else "gap"
            else:
                phase = "pre"
            rec["fault"] = {"phase": phase, "pre": tr.pre, "stack": stack[:4], "line": tr.line}
        elif tr:
            rec["fault"] = None  # the fault line was never reached
        out.append(rec)
    return ops, out


def to_model_ops(ops, real):
    mops = []
    for op, r in zip(ops, real):
        f = r.get("fault")
        spec = None
        if f:
            spec = {"phase": f["phase"], "pre": {"table": f["pre"]["table"], "entry": f["pre"]["entry"], "compiled": f["pre"]["compiled"]}}
        mops.append([op[0], op[1], spec, bool(r.get("trace"))])
    return mops


def out_kind(res):
    if res[0] in ("done",):
        return "done"
    if res[0] == "injected":
        return "error"
    if res[0] == "error":
        if res[1] == "TypeError" and ("positional argument" in res[2] or "keyword argument" in res[2] or "keyword-only" in res[2]):
            return "served"  # the generated entry point's own arity answer
        return "error" if cfg_error(res) else "served"
    return "served"


def model_state(ms):
    return {"defns": ms["defns"], "compiled": ms["compiled"], "entry": ms["entry"] is not None, "table": ms["table"]}


def compare(ops, real, model):
    for i, (op, r, m) in enumerate(zip(ops, real, model)):
        if "nomatch" in m:
            return {"layer": "I", "op": i, "what": "state at the instant of the fault is not a state of the model's build", "impl": r.get("fault"), "model": m["nomatch"]}
        ms = model_state(m["s"])
        if ms != r["s"]:
            return {"layer": "I", "op": i, "what": "state after the operation", "model": ms, "impl": r["s"], "fault": r.get("fault"), "opdesc": op}
        if r.get("trace") and m.get("trace") is not None and r["res"][0] != "error":
            mt = []
            for x in m["trace"]:
                o = model_state(x)
                if not mt or mt[-1] != o:
                    mt.append(o)
            STATS["traces compared"] = STATS.get("traces compared", 0) + 1
            if mt != r["trace"]:
                return {"layer": "I", "op": i, "what": "order of the state changes of an uninterrupted build", "model": mt, "impl": r["trace"], "opdesc": op}
        if not r.get("fault"):
            mk = m["out"] if isinstance(m["out"], str) else m["out"][0]
            if mk != out_kind(r["res"]):
                return {"layer": "I", "op": i, "what": "outcome of the operation", "model": m["out"], "impl": r["res"], "opdesc": op}
    return None


def run(seed, n):
    rng = random.Random(seed)
    scs, keep = [], []
    stats = {"scenarios": 0, "ops": 0, "faults fired": 0, "phase:compile": 0, "phase:gap": 0, "phase:pre": 0, "phase:after": 0, "natural": 0, "traces": 0}
    for _ in range(n):
        k = rng.randint(1, 4)
        kind = rng.choice(NATURAL + [None, None])
        sc = Scenario(rng, k, kind, 0)
        ops, real = run_real(sc, rng, k, kind is not None)
        mops = to_model_ops(ops, real)
        scs.append({"layer": "I", "bad": [99] if kind in ("call_next", "nosource") else [], "conflict": [99] if kind in ("names", "positions") else [], "ops": mops})
        keep.append((kind, k, ops, real))
        stats["scenarios"] += 1
        stats["ops"] += len(ops)
        stats["natural"] += kind is not None
        for op, r in zip(ops, real):
            stats["traces"] += bool(r.get("trace"))
            if r.get("fault"):
                stats["faults fired"] += 1
                stats["phase:" + r["fault"]["phase"]] += 1
    res = run_driver(scs)
    diffs = []
    unsafe = []
    for (kind, k, ops, real), m, sc in zip(keep, res, scs):
        if "error" in m:
            diffs.append({"layer": "I", "what": "driver-error", "detail": m["error"]})
            continue
        d = compare(ops, real, m["ops"])
        if d:
            d["scenario"] = {"bad_kind": kind, "k": k, "ops": ops}
            diffs.append(d)
        for i, mo in enumerate(m["ops"]):
            if "safe" in mo and not mo["safe"]:
                unsafe.append({"scenario": {"bad_kind": kind, "k": k, "ops": ops[: i + 1]}, "gap": mo.get("gap")})
    return stats, diffs, unsafe


if __name__ == "__main__":
    import json

    seed = int(sys.argv[1]) if len(sys.argv) > 1 else 0
    n = int(sys.argv[2]) if len(sys.argv) > 2 else 100
    stats, diffs, unsafe = run(seed, n)
    print(STATS)
    print(stats, "diffs", len(diffs), "model-unsafe states", len(unsafe))
    for d in diffs[:4]:
        print(json.dumps(d, default=str)[:1800])
    for u in unsafe[:3]:
        print("UNSAFE", json.dumps(u, default=str)[:600])
