import Ovldverif.Spec.CacheSpec
/-!
# The caches refine the pure resolution (generic part of C04 / C20 / C19)

Port of `design_prototypes/Cache.lean` to the generic definitions of `Model/Cache.lean`:
in every state reachable by lookups (`CInv`) a lookup returns exactly `pureLookup` and preserves `CInv`.
-/
set_option autoImplicit false
namespace Ovld

section
variable {K F E : Type}

/-- the composite key a write goes to -/
def W.key : W K F E → CKey K
  | .c ck _ => ck
  | .e ck _ => ck

/-- the composite keys one rank is published under, given the codes of the previous rank -/
def tups (k : K) (ps : List Code) : List (CKey K) :=
  if ps.isEmpty then [(none, k)] else ps.map (fun p => (some p, k))

theorem mem_tups (k : K) (ps : List Code) (t : CKey K) :
    t ∈ tups k ps ↔ (ps = [] ∧ t = (none, k)) ∨ (∃ p ∈ ps, t = (some p, k)) := by
  cases ps with
  | nil => simp [tups]
  | cons p ps =>
    simp only [tups, List.isEmpty_cons, Bool.false_eq_true, if_false, List.mem_map]
    constructor
    · rintro ⟨q, hq, rfl⟩; exact Or.inr ⟨q, hq, rfl⟩
    · rintro (⟨h, _⟩ | ⟨q, hq, rfl⟩)
      · cases h
      · exact ⟨q, hq, rfl⟩

theorem writes_cons (k : K) (r : Rank F E) (rs : List (Rank F E)) (ps : List Code) :
    (writes k (r :: rs) ps : List (W K F E)) =
      match r.func with
      | none => (tups k ps).map (fun t => W.e t r.err)
      | some f => (tups k ps).map (fun t => W.c t f) ++ (if r.codes.isEmpty then [] else writes k rs r.codes) := rfl

theorem rankCodes_cons (r : Rank F E) (rs : List (Rank F E)) :
    rankCodes (r :: rs) = r.codes ++ rankCodes rs := by
  simp [rankCodes]

/-- where the publication loop writes: only at keys of `k`; at the ordinary key only in the first round;
    at a continuation key `(c, k)` only for `c` a code of the previous round or of one of the ranks -/
theorem writes_keys (k : K) : ∀ (rs : List (Rank F E)) (ps : List Code) (w : W K F E), w ∈ writes k rs ps →
    w.key.2 = k ∧ (w.key.1 = none → ps = []) ∧ (∀ c, w.key.1 = some c → c ∈ ps ∨ c ∈ rankCodes rs) := by
  intro rs
  induction rs with
  | nil => intro ps w h; simp [writes] at h
  | cons r rs ih =>
    intro ps w h
    have htup : ∀ t ∈ tups k ps,
        t.2 = k ∧ (t.1 = none → ps = []) ∧ (∀ c, t.1 = some c → c ∈ ps ∨ c ∈ rankCodes (r :: rs)) := by
      intro t ht
      rcases (mem_tups k ps t).1 ht with ⟨h1, rfl⟩ | ⟨p, hp, rfl⟩
      · exact ⟨rfl, fun _ => h1, fun c hc => (by cases hc)⟩
      · exact ⟨rfl, fun hc => (by cases hc), fun c hc => (by cases hc; exact Or.inl hp)⟩
    rw [writes_cons] at h
    cases hf : r.func with
    | none =>
      rw [hf] at h
      simp only [List.mem_map] at h
      obtain ⟨t, ht, rfl⟩ := h
      exact htup t ht
    | some f =>
      rw [hf] at h
      simp only [List.mem_append, List.mem_map] at h
      rcases h with ⟨t, ht, rfl⟩ | h
      · exact htup t ht
      · cases hc : r.codes.isEmpty with
        | true => rw [hc] at h; simp at h
        | false =>
          rw [hc] at h
          simp only [Bool.false_eq_true, if_false] at h
          obtain ⟨h1, h2, h3⟩ := ih r.codes w h
          refine ⟨h1, ?_, ?_⟩
          · intro hn
            have := h2 hn
            rw [this] at hc; simp at hc
          · intro c hcw
            right
            rw [rankCodes_cons]
            exact List.mem_append.2 (h3 c hcw)

/-- when the codes of different ranks are distinct, a continuation key does not get both an entry and an error -/
theorem writes_no_err (k : K) (c : Code) (f : F) (e : E) : ∀ (rs : List (Rank F E)) (ps : List Code),
    (ps ++ rankCodes rs).Nodup → (W.c (some c, k) f : W K F E) ∈ writes k rs ps →
    (W.e (some c, k) e : W K F E) ∈ writes k rs ps → False := by
  intro rs
  induction rs with
  | nil => intro ps _ h; simp [writes] at h
  | cons r rs ih =>
    intro ps nd hc he
    rw [writes_cons] at hc he
    cases hf : r.func with
    | none =>
      rw [hf] at hc
      simp at hc
    | some g =>
      rw [hf] at hc he
      rw [rankCodes_cons] at nd
      have nd' : (r.codes ++ rankCodes rs).Nodup := (List.nodup_append.1 nd).2.1
      have he' : (W.e (some c, k) e : W K F E) ∈ (if r.codes.isEmpty then [] else writes k rs r.codes) := by
        simpa using he
      cases hce : r.codes.isEmpty with
      | true => rw [hce] at he'; simp at he'
      | false =>
        rw [hce] at hc he'
        simp only [Bool.false_eq_true, if_false] at hc he'
        rcases List.mem_append.1 hc with hc1 | hc2
        · -- the entry is written by this rank, so `c ∈ ps`; the error later, so `c` is a code of a rank
          have hcps : c ∈ ps := by
            simp only [List.mem_map] at hc1
            obtain ⟨t, ht, hteq⟩ := hc1
            have hteq' : t = (some c, k) := by injection hteq
            subst hteq'
            rcases (mem_tups k ps _).1 ht with ⟨_, h2⟩ | ⟨p, hp, h2⟩
            · cases h2
            · cases h2; exact hp
          have hcr : c ∈ r.codes ++ rankCodes rs :=
            List.mem_append.2 ((writes_keys k rs r.codes _ he').2.2 c rfl)
          exact (List.nodup_append.1 nd).2.2 c hcps c hcr rfl
        · exact ih r.codes nd' hc2 he'

theorem tups_nodup (k : K) (ps : List Code) (h : ps.Nodup) : (tups k ps).Nodup := by
  cases ps with
  | nil => simp [tups]
  | cons p ps =>
    simp only [tups, List.isEmpty_cons, Bool.false_eq_true, if_false]
    unfold List.Nodup at h ⊢
    rw [List.pairwise_map]
    exact h.imp (fun hne he => hne (by injection he with h1 _; injection h1))

/-- when the codes of different ranks are distinct, no composite key is written twice -/
theorem writes_keys_nodup (k : K) : ∀ (rs : List (Rank F E)) (ps : List Code),
    (ps ++ rankCodes rs).Nodup → ((writes k rs ps : List (W K F E)).map W.key).Nodup := by
  intro rs
  induction rs with
  | nil => intro ps _; simp [writes]
  | cons r rs ih =>
    intro ps nd
    have ndps : ps.Nodup := (List.nodup_append.1 nd).1
    rw [writes_cons]
    cases hf : r.func with
    | none =>
      simp only [List.map_map]
      have : (W.key ∘ fun t => (W.e t r.err : W K F E)) = id := rfl
      rw [this, List.map_id]
      exact tups_nodup k ps ndps
    | some g =>
      simp only [List.map_append, List.map_map]
      have : (W.key ∘ fun t => (W.c t g : W K F E)) = id := rfl
      rw [this, List.map_id]
      rw [rankCodes_cons] at nd
      have nd' : (r.codes ++ rankCodes rs).Nodup := (List.nodup_append.1 nd).2.1
      cases hce : r.codes.isEmpty with
      | true => simpa using tups_nodup k ps ndps
      | false =>
        simp only [Bool.false_eq_true, if_false]
        refine List.nodup_append.2 ⟨tups_nodup k ps ndps, ih r.codes nd', ?_⟩
        intro a ha b hb hab
        subst hab
        obtain ⟨w, hw, rfl⟩ := List.mem_map.1 hb
        obtain ⟨_, h2, h3⟩ := writes_keys k rs r.codes w hw
        rcases (mem_tups k ps _).1 ha with ⟨_, h5⟩ | ⟨p, hp, h5⟩
        · have := h2 (by rw [h5])
          rw [this] at hce; simp at hce
        · have := h3 p (by rw [h5])
          exact (List.nodup_append.1 nd).2.2 p hp p (List.mem_append.2 this) rfl

theorem eq_of_key_nodup : ∀ (l : List (W K F E)), (l.map W.key).Nodup →
    ∀ a ∈ l, ∀ b ∈ l, a.key = b.key → a = b
  | [], _, _, ha, _, _, _ => by cases ha
  | x :: l, h, a, ha, b, hb, e => by
    rw [List.map_cons, List.nodup_cons] at h
    rcases List.mem_cons.mp ha with rfl | ha'
    · rcases List.mem_cons.mp hb with rfl | hb'
      · rfl
      · exact absurd (e ▸ List.mem_map_of_mem hb') h.1
    · rcases List.mem_cons.mp hb with rfl | hb'
      · exact absurd (e ▸ List.mem_map_of_mem ha') h.1
      · exact eq_of_key_nodup l h.2 a ha' b hb' e

variable [DecidableEq K]

theorem lastC_mem (ck : CKey K) (l : List (W K F E)) : ∀ (f : F), lastC ck l = some f → W.c ck f ∈ l := by
  induction l with
  | nil => intro f h; simp [lastC] at h
  | cons w l ih =>
    intro f h
    cases w with
    | c ck' g =>
      simp only [lastC] at h
      cases hl : lastC ck l with
      | some g' =>
        rw [hl] at h
        simp only [Option.some.injEq] at h
        subst h
        exact List.mem_cons_of_mem _ (ih _ hl)
      | none =>
        rw [hl] at h
        by_cases hk : ck = ck'
        · simp only [hk, if_true, Option.some.injEq] at h
          subst h; subst hk
          exact List.mem_cons_self ..
        · simp [hk] at h
    | e ck' g =>
      simp only [lastC] at h
      exact List.mem_cons_of_mem _ (ih f h)

theorem lastE_mem (ck : CKey K) (l : List (W K F E)) : ∀ (e : E), lastE ck l = some e → W.e ck e ∈ l := by
  induction l with
  | nil => intro f h; simp [lastE] at h
  | cons w l ih =>
    intro f h
    cases w with
    | e ck' g =>
      simp only [lastE] at h
      cases hl : lastE ck l with
      | some g' =>
        rw [hl] at h
        simp only [Option.some.injEq] at h
        subst h
        exact List.mem_cons_of_mem _ (ih _ hl)
      | none =>
        rw [hl] at h
        by_cases hk : ck = ck'
        · simp only [hk, if_true, Option.some.injEq] at h
          subst h; subst hk
          exact List.mem_cons_self ..
        · simp [hk] at h
    | c ck' g =>
      simp only [lastE] at h
      exact List.mem_cons_of_mem _ (ih f h)

theorem lastC_some_of_mem (ck : CKey K) (f : F) (l : List (W K F E)) :
    W.c ck f ∈ l → ∃ g, lastC ck l = some g := by
  induction l with
  | nil => intro h; simp at h
  | cons w l ih =>
    intro h
    cases w with
    | c ck' g =>
      simp only [lastC]
      cases hl : lastC ck l with
      | some g' => exact ⟨g', rfl⟩
      | none =>
        rcases List.mem_cons.1 h with h1 | h2
        · have hk : ck = ck' := by injection h1
          exact ⟨g, by simp [hk]⟩
        · obtain ⟨g', hg'⟩ := ih h2
          rw [hl] at hg'; cases hg'
    | e ck' g =>
      simp only [lastC]
      rcases List.mem_cons.1 h with h1 | h2
      · cases h1
      · exact ih h2

theorem lastC_none_of_not_mem (ck : CKey K) (l : List (W K F E)) (h : ∀ f, W.c ck f ∉ l) : lastC ck l = none := by
  cases hl : lastC ck l with
  | none => rfl
  | some f => exact absurd (lastC_mem ck l f hl) (h f)

theorem lastE_none_of_not_mem (ck : CKey K) (l : List (W K F E)) (h : ∀ e, W.e ck e ∉ l) : lastE ck l = none := by
  cases hl : lastE ck l with
  | none => rfl
  | some e => exact absurd (lastE_mem ck l e hl) (h e)

theorem lastE_written_of_mem (ck : CKey K) (e : E) (l : List (W K F E)) :
    W.e ck e ∈ l → ∃ g, lastE ck l = some g := by
  induction l with
  | nil => intro h; simp at h
  | cons w l ih =>
    intro h
    cases w with
    | e ck' g =>
      simp only [lastE]
      cases hl : lastE ck l with
      | some g' => exact ⟨g', rfl⟩
      | none =>
        rcases List.mem_cons.1 h with h1 | h2
        · have hk : ck = ck' := by injection h1
          exact ⟨g, by simp [hk]⟩
        · obtain ⟨g', hg'⟩ := ih h2
          rw [hl] at hg'; cases hg'
    | c ck' g =>
      simp only [lastE]
      rcases List.mem_cons.1 h with h1 | h2
      · cases h1
      · exact ih h2

/-- when no composite key is written twice, the last value written is the value written -/
theorem lastC_eq_of_mem (l : List (W K F E)) (nd : (l.map W.key).Nodup) (ck : CKey K) (f : F)
    (hm : W.c ck f ∈ l) : lastC ck l = some f := by
  obtain ⟨g, hg⟩ := lastC_some_of_mem ck f l hm
  have := eq_of_key_nodup l nd _ hm _ (lastC_mem ck l g hg) rfl
  injection this with _ h2
  rw [hg, h2]

theorem lastE_eq_of_mem (l : List (W K F E)) (nd : (l.map W.key).Nodup) (ck : CKey K) (e : E)
    (hm : W.e ck e ∈ l) : lastE ck l = some e := by
  obtain ⟨g, hg⟩ := lastE_written_of_mem ck e l hm
  have := eq_of_key_nodup l nd _ hm _ (lastE_mem ck l g hg) rfl
  injection this with _ h2
  rw [hg, h2]

theorem applyW_cache (l : List (W K F E)) : ∀ (st : St K F E) (ck : CKey K),
    (applyW st l).cache ck = match lastC ck l with | some f => some f | none => st.cache ck := by
  induction l with
  | nil => intro st ck; rfl
  | cons w l ih =>
    intro st ck
    cases w with
    | c ck' f =>
      simp only [applyW, lastC]; rw [ih]
      cases lastC ck l with
      | some g => simp
      | none => by_cases h : ck = ck' <;> simp [h]
    | e ck' err => simp only [applyW, lastC]; rw [ih]

theorem applyW_errors (l : List (W K F E)) : ∀ (st : St K F E) (ck : CKey K),
    (applyW st l).errors ck = match lastE ck l with | some f => some f | none => st.errors ck := by
  induction l with
  | nil => intro st ck; rfl
  | cons w l ih =>
    intro st ck
    cases w with
    | e ck' f =>
      simp only [applyW, lastE]; rw [ih]
      cases lastE ck l with
      | some g => simp
      | none => by_cases h : ck = ck' <;> simp [h]
    | c ck' err => simp only [applyW, lastE]; rw [ih]

theorem applyW_all (l : List (W K F E)) : ∀ (st : St K F E), (applyW st l).all = st.all := by
  induction l with
  | nil => intro st; rfl
  | cons w l ih => intro st; cases w <;> simp [applyW, ih]

variable (plan : K → Plan F E)

theorem mem_ws (k : K) (w : W K F E) : w ∈ ws plan k ↔ w ∈ writes k (plan k).ranks [] := by
  unfold ws; exact List.mem_reverse

/-- writes of key `k` only touch composite keys whose tuple part is `k` -/
theorem ws_key (k : K) (ck : CKey K) (hk : ck.2 ≠ k) :
    lastC ck (ws plan k) = none ∧ lastE ck (ws plan k) = none := by
  constructor
  · exact lastC_none_of_not_mem _ _ fun f hm => hk (writes_keys k _ _ _ ((mem_ws plan k _).1 hm)).1
  · exact lastE_none_of_not_mem _ _ fun e hm => hk (writes_keys k _ _ _ ((mem_ws plan k _).1 hm)).1

/-- the three structural facts of the prototype's `PlanOK` (`top_entry_ranks`, `top_excl`, `next_entry_top`):
    any published entry of `k` means that the plan has ranks, the ordinary key has an entry and no error -/
theorem ws_entry_top (k : K) (c : Option Code) (f : F) (h : lastC (c, k) (ws plan k) = some f) :
    (plan k).ranks.isEmpty = false ∧ lastE (none, k) (ws plan k) = none ∧
      ∃ g, lastC (none, k) (ws plan k) = some g := by
  have hm := (mem_ws plan k _).1 (lastC_mem _ _ _ h)
  cases hr : (plan k).ranks with
  | nil => rw [hr] at hm; simp [writes] at hm
  | cons r rs =>
    rw [hr] at hm
    rw [writes_cons] at hm
    cases hf : r.func with
    | none => rw [hf] at hm; simp at hm
    | some g =>
      have hw : writes k (plan k).ranks [] =
          W.c (none, k) g :: (if r.codes.isEmpty then [] else writes k rs r.codes) := by
        rw [hr, writes_cons, hf]
        simp [tups]
      refine ⟨rfl, ?_, ?_⟩
      · apply lastE_none_of_not_mem
        intro e he
        have he' := (mem_ws plan k _).1 he
        rw [hw] at he'
        rcases List.mem_cons.1 he' with h1 | h2
        · cases h1
        · cases hce : r.codes.isEmpty with
          | true => rw [hce] at h2; simp at h2
          | false =>
            rw [hce] at h2
            simp only [Bool.false_eq_true, if_false] at h2
            have := (writes_keys k rs r.codes _ h2).2.1 rfl
            rw [this] at hce; simp at hce
      · have hmem : W.c (none, k) g ∈ ws plan k := (mem_ws plan k _).2 (by rw [hw]; exact List.mem_cons_self ..)
        exact lastC_some_of_mem _ g _ hmem

/-- prototype's `next_entry_no_err` -/
theorem ws_entry_no_err (ok : PlanOK plan) (k : K) (c : Code) (f : F)
    (h : lastC (some c, k) (ws plan k) = some f) : lastE (some c, k) (ws plan k) = none := by
  apply lastE_none_of_not_mem
  intro e he
  exact writes_no_err k c f e (plan k).ranks [] (by simpa using ok.codes_nodup k) ((mem_ws plan k _).1 (lastC_mem _ _ _ h)) ((mem_ws plan k _).1 he)

/-- prototype's `next_entry_code` -/
theorem ws_entry_code (ok : PlanOK plan) (k : K) (c : Code) (f : F)
    (h : lastC (some c, k) (ws plan k) = some f) : (plan k).allCodes.contains c = true := by
  have := (writes_keys k (plan k).ranks [] _ ((mem_ws plan k _).1 (lastC_mem _ _ _ h))).2.2 c rfl
  rcases this with h1 | h2
  · cases h1
  · exact List.contains_iff_mem.2 (ok.codes_sub k c h2)

theorem inv_empty : CInv plan (St.empty : St K F E) :=
  { cache_sub := by intro _ _ h; cases h
    errors_sub := by intro _ _ h; cases h
    all_eq := by intro _ _ h; cases h
    closed_c := by intro _ h; exact absurd rfl h
    closed_e := by intro _ h; exact absurd rfl h
    top_all := by intro _ _ h; cases h }

/-- no composite key of `k` is written twice -/
theorem ws_keys_nodup (ok : PlanOK plan) (k : K) : ((ws plan k).map W.key).Nodup := by
  unfold ws
  rw [List.map_reverse]
  have nd := writes_keys_nodup (F := F) (E := E) k (plan k).ranks [] (by simpa using ok.codes_nodup k)
  unfold List.Nodup at nd ⊢
  rw [List.pairwise_reverse]
  exact nd.imp (fun hne => Ne.symm hne)

/-- the entry of the looked-up key itself is the LAST write: a prefix of the writes that contains it is all of
    them -/
theorem ws_take_top (k : K) (n : Nat) (g : F) (h : W.c (none, k) g ∈ (ws plan k).take n) :
    (ws plan k).take n = ws plan k := by
  have hm := (mem_ws plan k _).1 (List.mem_of_mem_take h)
  cases hr : (plan k).ranks with
  | nil => rw [hr] at hm; simp [writes] at hm
  | cons r rs =>
    rw [hr, writes_cons] at hm
    cases hf : r.func with
    | none => rw [hf] at hm; simp at hm
    | some f =>
      have hw : ws plan k =
          (if r.codes.isEmpty then [] else writes k rs r.codes).reverse ++ [W.c (none, k) f] := by
        unfold ws
        rw [hr, writes_cons, hf]
        simp [tups]
      by_cases hn : n ≤ (if r.codes.isEmpty then [] else writes k rs r.codes : List (W K F E)).reverse.length
      · exfalso
        rw [hw, List.take_append_of_le_length hn] at h
        have h2 := List.mem_reverse.1 (List.mem_of_mem_take h)
        cases hce : r.codes.isEmpty with
        | true => rw [hce] at h2; simp at h2
        | false =>
          rw [hce] at h2
          simp only [Bool.false_eq_true, if_false] at h2
          have := (writes_keys k rs r.codes _ h2).2.1 rfl
          rw [this] at hce; simp at hce
      · apply List.take_of_length_le
        rw [hw, List.length_append, List.length_singleton]
        omega

theorem resolve_cache (st : St K F E) (k : K) (ck : CKey K) :
    (resolve plan k st).cache ck = match lastC ck (ws plan k) with | some f => some f | none => st.cache ck := by
  unfold resolve; rw [applyW_cache]

theorem resolve_errors (st : St K F E) (k : K) (ck : CKey K) :
    (resolve plan k st).errors ck = match lastE ck (ws plan k) with | some f => some f | none => st.errors ck := by
  unfold resolve; rw [applyW_errors]

theorem resolve_all (st : St K F E) (k k' : K) :
    (resolve plan k st).all k' = if k' = k then some (plan k).allCodes else st.all k' := by
  unfold resolve; rw [applyW_all]

theorem inv_resolve (st : St K F E) (k : K) (hf : (plan k).fail = false) (h : CInv plan st) :
    CInv plan (resolve plan k st) := by
  have loc := fun ck (hk : ck.2 ≠ k) => ws_key plan k ck hk
  refine ⟨?_, ?_, ?_, ?_, ?_, ?_⟩
  · intro ck f hc
    rw [resolve_cache] at hc
    by_cases hk : ck.2 = k
    · cases hl : lastC ck (ws plan k) with
      | some g => rw [hl] at hc; simp at hc; subst hc; rw [hk]; exact ⟨hl, hf⟩
      | none => rw [hl] at hc; simp at hc; exact h.cache_sub ck f hc
    · rw [(loc ck hk).1] at hc; exact h.cache_sub ck f hc
  · intro ck e hc
    rw [resolve_errors] at hc
    by_cases hk : ck.2 = k
    · cases hl : lastE ck (ws plan k) with
      | some g => rw [hl] at hc; simp at hc; subst hc; rw [hk]; exact ⟨hl, hf⟩
      | none => rw [hl] at hc; simp at hc; exact h.errors_sub ck e hc
    · rw [(loc ck hk).2] at hc; exact h.errors_sub ck e hc
  · intro k' cs hc
    rw [resolve_all] at hc
    by_cases hk : k' = k
    · subst hk; simp at hc; exact ⟨hc.symm, hf⟩
    · simp [hk] at hc; exact h.all_eq k' cs hc
  · intro k' ha c
    rw [resolve_cache]
    by_cases hk : k' = k
    · subst hk
      cases hl : lastC (c, k') (ws plan k') with
      | some g => rfl
      | none =>
        simp only []
        cases hs : st.cache (c, k') with
        | none => rfl
        | some f => have := (h.cache_sub (c, k') f hs).1; simp at this; rw [hl] at this; cases this
    · rw [(loc (c, k') hk).1]
      rw [resolve_cache, (loc (none, k') hk).1] at ha
      exact h.closed_c k' ha c
  · intro k' ha c
    rw [resolve_errors]
    by_cases hk : k' = k
    · subst hk
      cases hl : lastE (c, k') (ws plan k') with
      | some g => rfl
      | none =>
        simp only []
        cases hs : st.errors (c, k') with
        | none => rfl
        | some f => have := (h.errors_sub (c, k') f hs).1; simp at this; rw [hl] at this; cases this
    · rw [(loc (c, k') hk).2]
      rw [resolve_cache, (loc (none, k') hk).1] at ha
      exact h.closed_e k' ha c
  · intro k' f hc
    rw [resolve_all]
    by_cases hk : k' = k
    · simp [hk]
    · simp only [hk, if_false]
      rw [resolve_cache] at hc
      rw [(loc (none, k') hk).1] at hc
      exact h.top_all k' f hc

theorem lookupTop_spec (st : St K F E) (k : K) (h : CInv plan st) :
    (lookupTop plan st k).2 = pureTop plan k ∧ CInv plan (lookupTop plan st k).1 := by
  unfold lookupTop
  cases hc : st.cache (none, k) with
  | some f =>
    refine ⟨?_, h⟩
    have l := h.cache_sub (none, k) f hc
    simp only [] at l
    obtain ⟨hr, he, _⟩ := ws_entry_top plan k none f l.1
    simp [pureTop, l.2, hr, he, l.1]
  | none =>
    simp only []
    cases hf : (plan k).fail with
    | true => exact ⟨by simp [pureTop, hf], h⟩
    | false =>
      simp only [Bool.false_eq_true, if_false]
      have hi := inv_resolve plan st k hf h
      cases hr : (plan k).ranks.isEmpty with
      | true => simp only [if_true]; exact ⟨by simp [pureTop, hf, hr], hi⟩
      | false =>
        simp only [Bool.false_eq_true, if_false]
        -- the writes just applied override whatever was there: a stale error of an interrupted resolution
        -- is, by `errors_sub`, one of the values written now
        have ec : (resolve plan k st).cache (none, k) = lastC (none, k) (ws plan k) := by
          rw [resolve_cache, hc]
          cases lastC (none, k) (ws plan k) <;> rfl
        have ee : (resolve plan k st).errors (none, k) = lastE (none, k) (ws plan k) := by
          rw [resolve_errors]
          cases hl : lastE (none, k) (ws plan k) with
          | some e => rfl
          | none =>
            simp only []
            cases hs : st.errors (none, k) with
            | none => rfl
            | some e => have := (h.errors_sub (none, k) e hs).1; simp at this; rw [hl] at this; cases this
        rw [ee, ec]
        simp only [pureTop, hf, hr, Bool.false_eq_true, if_false]
        cases lastE (none, k) (ws plan k) with
        | some e => exact ⟨rfl, hi⟩
        | none =>
          cases lastC (none, k) (ws plan k) with
          | some f => exact ⟨rfl, hi⟩
          | none => exact ⟨rfl, hi⟩

/-- the state after `lookupTop` is the state before, or that state after a `resolve` -/
theorem lookupTop_state (st : St K F E) (k : K) :
    (lookupTop plan st k).1 = st ∨ (lookupTop plan st k).1 = resolve plan k st := by
  unfold lookupTop
  cases st.cache (none, k) with
  | some f => exact Or.inl rfl
  | none =>
    simp only []
    cases (plan k).fail with
    | true => exact Or.inl rfl
    | false =>
      right
      simp only [Bool.false_eq_true, if_false]
      split
      · rfl
      · split
        · rfl
        · split <;> rfl

/-- a successful `lookupTop` leaves the entry in the cache (and `all` set) -/
theorem lookupTop_ok (st : St K F E) (k : K) (f : F) (hr : (lookupTop plan st k).2 = .ok f) :
    (lookupTop plan st k).1.cache (none, k) = some f := by
  unfold lookupTop at hr ⊢
  cases hc : st.cache (none, k) with
  | some g =>
    rw [hc] at hr
    simp only [Res.ok.injEq] at hr
    subst hr
    exact hc
  | none =>
    rw [hc] at hr
    simp only [] at hr ⊢
    cases hf : (plan k).fail with
    | true => simp [hf] at hr
    | false =>
      simp only [hf, Bool.false_eq_true, if_false] at hr ⊢
      cases hr' : (plan k).ranks.isEmpty with
      | true => simp [hr'] at hr
      | false =>
        simp only [hr', Bool.false_eq_true, if_false] at hr ⊢
        cases he : (resolve plan k st).errors (none, k) with
        | some e => simp [he] at hr
        | none =>
          simp only [he] at hr ⊢
          cases hcc : (resolve plan k st).cache (none, k) with
          | some g =>
            simp only [hcc, Res.ok.injEq] at hr
            subst hr
            exact hcc
          | none => simp [hcc] at hr

theorem lookupTop_all (st : St K F E) (k : K) (h : CInv plan st) (f : F)
    (hr : (lookupTop plan st k).2 = .ok f) : (lookupTop plan st k).1.all k ≠ none := by
  have hi := (lookupTop_spec plan st k h).2
  exact hi.top_all k f (lookupTop_ok plan st k f hr)

theorem lookupNext_spec (ok : PlanOK plan) (st : St K F E) (c : Code) (k : K) (h : CInv plan st) :
    (lookupNext plan st c k).2 = pureNext plan c k ∧ CInv plan (lookupNext plan st c k).1 := by
  unfold lookupNext
  cases hc : st.cache (some c, k) with
  | some f =>
    refine ⟨?_, h⟩
    have l := h.cache_sub (some c, k) f hc
    simp only [] at l
    obtain ⟨hr, he, g, hg⟩ := ws_entry_top plan k (some c) f l.1
    have hcode : c ∈ (plan k).allCodes := List.contains_iff_mem.1 (ws_entry_code plan ok k c f l.1)
    have hne := ws_entry_no_err plan ok k c f l.1
    simp [pureNext, pureTop, l.2, hr, he, hg, hcode, hne, l.1]
  | none =>
    simp only []
    have ⟨ht, hi⟩ := lookupTop_spec plan st k h
    have hall := lookupTop_all plan st k h
    have htop := lookupTop_ok plan st k
    generalize hl : lookupTop plan st k = p at ht hi hall htop
    obtain ⟨st', r⟩ := p
    simp only [] at ht hi hall htop
    subst ht
    unfold pureNext
    cases hp : pureTop plan k with
    | amb e => exact ⟨rfl, hi⟩
    | noMethod => exact ⟨rfl, hi⟩
    | failed => exact ⟨rfl, hi⟩
    | keyError => exact ⟨rfl, hi⟩
    | ok f =>
      simp only []
      have ha := hall f hp
      have hne : st'.cache (none, k) ≠ none := by rw [htop f hp]; simp
      cases hA : st'.all k with
      | none => exact absurd hA ha
      | some cs =>
        have hcs := (hi.all_eq k cs hA).1
        subst hcs
        simp only []
        cases hm : (plan k).allCodes.contains c with
        | true =>
          simp only [Bool.not_true, Bool.false_eq_true, if_false]
          rw [hi.closed_e k hne (some c), hi.closed_c k hne (some c)]
          cases lastE (some c, k) (ws plan k) with
          | some e => exact ⟨rfl, hi⟩
          | none =>
            cases lastC (some c, k) (ws plan k) with
            | some f' => exact ⟨rfl, hi⟩
            | none => exact ⟨rfl, hi⟩
        | false => simp only [Bool.not_false, if_true]; exact ⟨trivial, hi⟩

/-- a lookup in any state satisfying the invariant returns the pure answer and preserves the invariant -/
theorem lookup_spec (ok : PlanOK plan) (st : St K F E) (ck : CKey K) (h : CInv plan st) :
    (lookup plan st ck).2 = pureLookup plan ck ∧ CInv plan (lookup plan st ck).1 := by
  obtain ⟨c, k⟩ := ck
  cases c with
  | none => exact lookupTop_spec plan st k h
  | some c => exact lookupNext_spec plan ok st c k h

theorem inv_run (ok : PlanOK plan) : ∀ (hist : List (CKey K)) (st : St K F E), CInv plan st → CInv plan (run plan st hist)
  | [], _, h => h
  | ck :: rest, st, h => inv_run ok rest _ (lookup_spec plan ok st ck h).2

/-- C04 (table level): after any history of lookups a lookup returns what it returns on a fresh table -/
theorem history_independent (ok : PlanOK plan) (hist : List (CKey K)) (ck : CKey K) :
    (lookup plan (run plan St.empty hist) ck).2 = (lookup plan (St.empty : St K F E) ck).2 := by
  rw [(lookup_spec plan ok _ ck (inv_run plan ok hist _ (inv_empty plan))).1,
      (lookup_spec plan ok _ ck (inv_empty plan)).1]

/-- on a miss of the continuation entry the state after `lookupNext` is the state after the inner `lookupTop` -/
theorem lookupNext_state_miss (st : St K F E) (c : Code) (k : K) (hc : st.cache (some c, k) = none) :
    (lookupNext plan st c k).1 = (lookupTop plan st k).1 := by
  unfold lookupNext
  rw [hc]
  simp only []
  generalize lookupTop plan st k = p
  obtain ⟨st', r⟩ := p
  cases r with
  | ok f =>
    simp only []
    split
    · rfl
    · split
      · rfl
      · split
        · rfl
        · split <;> rfl
  | amb e => rfl
  | noMethod => rfl
  | failed => rfl
  | keyError => rfl

/-- on a hit of the continuation entry `lookupNext` returns it and the unchanged state -/
theorem lookupNext_hit (st : St K F E) (c : Code) (k : K) (f : F) (hc : st.cache (some c, k) = some f) :
    lookupNext plan st c k = (st, .ok f) := by
  unfold lookupNext
  rw [hc]

/-- the state after `lookupNext` is the state after the inner `lookupTop`, or the state before -/
theorem lookupNext_state (st : St K F E) (c : Code) (k : K) :
    (lookupNext plan st c k).1 = st ∨ (lookupNext plan st c k).1 = (lookupTop plan st k).1 := by
  cases hc : st.cache (some c, k) with
  | some f => left; rw [lookupNext_hit plan st c k f hc]
  | none => exact Or.inr (lookupNext_state_miss plan st c k hc)

/-- the state after a lookup is the state before, or that state after a `resolve` of the tuple part -/
theorem lookup_state (st : St K F E) (ck : CKey K) :
    (lookup plan st ck).1 = st ∨ (lookup plan st ck).1 = resolve plan ck.2 st := by
  obtain ⟨c, k⟩ := ck
  cases c with
  | none => exact lookupTop_state plan st k
  | some c =>
    rcases lookupNext_state plan st c k with h | h
    · exact Or.inl h
    · rcases lookupTop_state plan st k with h' | h'
      · exact Or.inl (h.trans h')
      · exact Or.inr (h.trans h')

/-- a lookup that does not resolve leaves the three caches exactly as they were -/
theorem no_resolve_no_change (st : St K F E) (ck : CKey K) (h : resolves plan st ck = false) :
    (lookup plan st ck).1 = st := by
  have top : ∀ k, ((st.cache (none, k)).isNone && !(plan k).fail) = false → (lookupTop plan st k).1 = st := by
    intro k hk
    unfold lookupTop
    cases hc : st.cache (none, k) with
    | some f => rfl
    | none =>
      simp only []
      cases hf : (plan k).fail with
      | true => rfl
      | false => simp [hc, hf] at hk
  obtain ⟨c, k⟩ := ck
  cases c with
  | none => exact top k h
  | some c =>
    show (lookupNext plan st c k).1 = st
    cases hc : st.cache (some c, k) with
    | some f => rw [lookupNext_hit plan st c k f hc]
    | none =>
      rw [lookupNext_state_miss plan st c k hc]
      apply top k
      simpa [resolves, hc] using h

/-- lookups never evict: what is cached stays cached with the same value -/
theorem cache_monotone (st : St K F E) (ck ck' : CKey K) (f : F) (ok : PlanOK plan) (hi : CInv plan st)
    (h : st.cache ck' = some f) : (lookup plan st ck).1.cache ck' = some f := by
  have _ := ok
  rcases lookup_state plan st ck with hs | hs
  · rw [hs]; exact h
  · rw [hs, resolve_cache]
    by_cases hk : ck'.2 = ck.2
    · have := (hi.cache_sub ck' f h).1
      rw [hk] at this
      rw [this]
    · rw [(ws_key plan ck.2 ck' hk).1]; exact h

theorem run_cache_monotone (ok : PlanOK plan) (ck' : CKey K) (f : F) : ∀ (hist : List (CKey K)) (st : St K F E),
    CInv plan st → st.cache ck' = some f → (run plan st hist).cache ck' = some f
  | [], _, _, h => h
  | ck :: rest, st, hi, h =>
    run_cache_monotone ok ck' f rest _ (lookup_spec plan ok st ck hi).2 (cache_monotone plan st ck ck' f ok hi h)

/-- C20 (table level): once a lookup of `ck` has succeeded, no later lookup of `ck` resolves again, whatever
    other lookups happened in between -/
theorem warm_no_resolve (ok : PlanOK plan) (st : St K F E) (hi : CInv plan st) (ck : CKey K) (f : F)
    (hok : (lookup plan st ck).2 = .ok f) (hist : List (CKey K)) :
    resolves plan (run plan (lookup plan st ck).1 hist) ck = false := by
  have hi' := (lookup_spec plan ok st ck hi).2
  obtain ⟨c, k⟩ := ck
  cases c with
  | none =>
    have h1 : (lookup plan st (none, k)).1.cache (none, k) = some f := lookupTop_ok plan st k f hok
    have h2 := run_cache_monotone plan ok (none, k) f hist _ hi' h1
    simp [resolves, h2]
  | some c =>
    -- after the lookup either the continuation entry or the ordinary entry is cached
    have h1 : (∃ g, (lookup plan st (some c, k)).1.cache (some c, k) = some g) ∨
        (∃ g, (lookup plan st (some c, k)).1.cache (none, k) = some g) := by
      show (∃ g, (lookupNext plan st c k).1.cache (some c, k) = some g) ∨
        (∃ g, (lookupNext plan st c k).1.cache (none, k) = some g)
      have hok' : (lookupNext plan st c k).2 = .ok f := hok
      cases hc : st.cache (some c, k) with
      | some g =>
        left
        rw [lookupNext_hit plan st c k g hc]
        exact ⟨g, hc⟩
      | none =>
        right
        rw [lookupNext_state_miss plan st c k hc]
        have : ∃ g, (lookupTop plan st k).2 = .ok g := by
          unfold lookupNext at hok'
          rw [hc] at hok'
          simp only [] at hok'
          generalize lookupTop plan st k = p at hok' ⊢
          obtain ⟨st', r⟩ := p
          cases r with
          | ok g => exact ⟨g, rfl⟩
          | amb e => simp at hok'
          | noMethod => simp at hok'
          | failed => simp at hok'
          | keyError => simp at hok'
        obtain ⟨g, hg⟩ := this
        exact ⟨g, lookupTop_ok plan st k g hg⟩
    rcases h1 with ⟨g, hg⟩ | ⟨g, hg⟩
    · have h2 := run_cache_monotone plan ok (some c, k) g hist _ hi' hg
      simp [resolves, h2]
    · have h2 := run_cache_monotone plan ok (none, k) g hist _ hi' hg
      simp [resolves, h2]

/-! ## interrupted resolutions -/

theorem resolvePartial_cache (st : St K F E) (k : K) (n : Nat) (ck : CKey K) :
    (resolvePartial plan k n st).cache ck =
      match lastC ck ((ws plan k).take n) with | some f => some f | none => st.cache ck := by
  unfold resolvePartial; rw [applyW_cache]

theorem resolvePartial_errors (st : St K F E) (k : K) (n : Nat) (ck : CKey K) :
    (resolvePartial plan k n st).errors ck =
      match lastE ck ((ws plan k).take n) with | some f => some f | none => st.errors ck := by
  unfold resolvePartial; rw [applyW_errors]

theorem resolvePartial_all (st : St K F E) (k : K) (n : Nat) (k' : K) :
    (resolvePartial plan k n st).all k' = if k' = k then some (plan k).allCodes else st.all k' := by
  unfold resolvePartial; rw [applyW_all]

/-- an interrupt after all the writes is no interrupt -/
theorem resolvePartial_full (st : St K F E) (k : K) (n : Nat) (h : (ws plan k).take n = ws plan k) :
    resolvePartial plan k n st = resolve plan k st := by
  unfold resolvePartial resolve; rw [h]

/-- a resolution interrupted after any number of its writes preserves the invariant: the entry of the key itself
    is written last, so either all writes are present or the invariant promises nothing about this key -/
theorem inv_resolvePartial (ok : PlanOK plan) (st : St K F E) (k : K) (n : Nat) (hf : (plan k).fail = false)
    (hc : st.cache (none, k) = none) (h : CInv plan st) : CInv plan (resolvePartial plan k n st) := by
  cases hl : lastC (none, k) ((ws plan k).take n) with
  | some g =>
    rw [resolvePartial_full plan st k n (ws_take_top plan k n g (lastC_mem _ _ _ hl))]
    exact inv_resolve plan st k hf h
  | none =>
    have nd := ws_keys_nodup plan ok k
    have loc : ∀ ck : CKey K, ck.2 ≠ k →
        lastC ck ((ws plan k).take n) = none ∧ lastE ck ((ws plan k).take n) = none := by
      intro ck hk
      constructor
      · exact lastC_none_of_not_mem _ _ fun f hm =>
          hk (writes_keys k _ _ _ ((mem_ws plan k _).1 (List.mem_of_mem_take hm))).1
      · exact lastE_none_of_not_mem _ _ fun e hm =>
          hk (writes_keys k _ _ _ ((mem_ws plan k _).1 (List.mem_of_mem_take hm))).1
    have htop : (resolvePartial plan k n st).cache (none, k) = none := by
      rw [resolvePartial_cache, hl]; exact hc
    refine ⟨?_, ?_, ?_, ?_, ?_, ?_⟩
    · intro ck f hc'
      rw [resolvePartial_cache] at hc'
      cases hl' : lastC ck ((ws plan k).take n) with
      | some g =>
        rw [hl'] at hc'; simp at hc'; subst hc'
        have hm : W.c ck g ∈ ws plan k := List.mem_of_mem_take (lastC_mem _ _ _ hl')
        have hk : ck.2 = k := (writes_keys k _ _ _ ((mem_ws plan k _).1 hm)).1
        rw [hk]
        exact ⟨lastC_eq_of_mem _ nd ck g hm, hf⟩
      | none => rw [hl'] at hc'; exact h.cache_sub ck f hc'
    · intro ck e hc'
      rw [resolvePartial_errors] at hc'
      cases hl' : lastE ck ((ws plan k).take n) with
      | some g =>
        rw [hl'] at hc'; simp at hc'; subst hc'
        have hm : W.e ck g ∈ ws plan k := List.mem_of_mem_take (lastE_mem _ _ _ hl')
        have hk : ck.2 = k := (writes_keys k _ _ _ ((mem_ws plan k _).1 hm)).1
        rw [hk]
        exact ⟨lastE_eq_of_mem _ nd ck g hm, hf⟩
      | none => rw [hl'] at hc'; exact h.errors_sub ck e hc'
    · intro k' cs hc'
      rw [resolvePartial_all] at hc'
      by_cases hk : k' = k
      · subst hk; simp at hc'; exact ⟨hc'.symm, hf⟩
      · simp [hk] at hc'; exact h.all_eq k' cs hc'
    · intro k' ha c
      by_cases hk : k' = k
      · subst hk; exact absurd htop ha
      · rw [resolvePartial_cache, (loc (c, k') hk).1]
        rw [resolvePartial_cache, (loc (none, k') hk).1] at ha
        exact h.closed_c k' ha c
    · intro k' ha c
      by_cases hk : k' = k
      · subst hk; exact absurd htop ha
      · rw [resolvePartial_errors, (loc (c, k') hk).2]
        rw [resolvePartial_cache, (loc (none, k') hk).1] at ha
        exact h.closed_e k' ha c
    · intro k' f hc'
      rw [resolvePartial_all]
      by_cases hk : k' = k
      · simp [hk]
      · simp only [hk, if_false]
        rw [resolvePartial_cache, (loc (none, k') hk).1] at hc'
        exact h.top_all k' f hc'

theorem inv_lookupTopCut (ok : PlanOK plan) (st : St K F E) (k : K) (n : Nat) (h : CInv plan st) :
    CInv plan (lookupTopCut plan st k n) := by
  unfold lookupTopCut
  cases hc : st.cache (none, k) with
  | some f => exact h
  | none =>
    simp only []
    cases hf : (plan k).fail with
    | true => exact h
    | false =>
      simp only [Bool.false_eq_true, if_false]
      exact inv_resolvePartial plan ok st k n hf hc h

/-- an interrupted lookup preserves the cache invariant, wherever the interrupt falls -/
theorem lookupCut_inv (ok : PlanOK plan) (st : St K F E) (ck : CKey K) (n : Nat) (h : CInv plan st) :
    CInv plan (lookupCut plan st ck n) := by
  obtain ⟨c, k⟩ := ck
  cases c with
  | none => exact inv_lookupTopCut plan ok st k n h
  | some c =>
    show CInv plan (match st.cache (some c, k) with | some _ => st | none => lookupTopCut plan st k n)
    cases st.cache (some c, k) with
    | some f => exact h
    | none => exact inv_lookupTopCut plan ok st k n h

theorem runL_inv (ok : PlanOK plan) : ∀ (hist : List (LOp K)) (st : St K F E), CInv plan st →
    CInv plan (runL plan st hist)
  | [], _, h => h
  | .look ck :: rest, st, h => runL_inv ok rest _ (lookup_spec plan ok st ck h).2
  | .cut ck n :: rest, st, h => runL_inv ok rest _ (lookupCut_inv plan ok st ck n h)

end
end Ovld
