import Ovldverif.Lemmas.GraphRel
/-!
# Topological orders of the mixin relation; re-ranking when mixins are added

`Topo L mx ord`: `ord` lists all `L` nodes, every mixin strictly before the functions that use it.  The position
in `ord` is a rank bounded by `L`, which is what the fuel `depth = L + 1` of the model needs.  Adding mixins
`ms` to `n`, none of which derives from `n`, keeps the relation acyclic: move `n` and its descendants to the end.
-/
set_option autoImplicit false
namespace Ovld

def Topo (L : Nat) (mx : Nat → List Nat) (ord : List Nat) : Prop :=
  ord.length = L ∧ (∀ x, x < L → x ∈ ord) ∧ ∀ n, ∀ m ∈ mx n, n < L ∧ m < L ∧ ord.idxOf m < ord.idxOf n

theorem Topo.ranked {L : Nat} {mx : Nat → List Nat} {ord : List Nat} (h : Topo L mx ord) :
    Ranked L mx ord.idxOf := by
  refine ⟨fun n hn => ?_, h.2.2⟩
  rw [← h.1]
  exact List.idxOf_lt_length_iff.mpr (h.2.1 n hn)

theorem idxOf_filter_lt (p : Nat → Bool) : ∀ (l : List Nat) (a b : Nat), p a = true → p b = true →
    l.idxOf a < l.idxOf b → (l.filter p).idxOf a < (l.filter p).idxOf b
  | [], a, b, _, _, h => by simp at h
  | h :: t, a, b, ha, hb, hlt => by
    rw [List.idxOf_cons, List.idxOf_cons] at hlt
    have hhb : (h == b) = false := by
      cases hb' : h == b
      · rfl
      · rw [hb'] at hlt; simp at hlt
    rw [hhb] at hlt
    by_cases hha : h = a
    · subst hha
      rw [List.filter_cons_of_pos ha, List.idxOf_cons, List.idxOf_cons, hhb]
      simp
    · have hha' : (h == a) = false := by simpa using hha
      rw [hha'] at hlt
      simp only [cond_false] at hlt
      have ih := idxOf_filter_lt p t a b ha hb (by omega)
      by_cases hp : p h = true
      · rw [List.filter_cons_of_pos hp, List.idxOf_cons, List.idxOf_cons, hha', hhb]
        simp only [cond_false]
        omega
      · rw [List.filter_cons_of_neg hp]
        exact ih

theorem length_filter_add (p : Nat → Bool) : ∀ (l : List Nat),
    (l.filter p).length + (l.filter (fun x => !p x)).length = l.length
  | [] => rfl
  | h :: t => by
    have ih := length_filter_add p t
    by_cases hp : p h = true
    · rw [List.filter_cons_of_pos hp, List.filter_cons_of_neg (by simp [hp])]
      simp only [List.length_cons]; omega
    · rw [List.filter_cons_of_neg hp, List.filter_cons_of_pos (by simpa using hp)]
      simp only [List.length_cons]; omega

open Classical in
/-- re-ranking for `add_mixins` -/
theorem Topo.addMixins {L : Nat} {mx : Nat → List Nat} {ord : List Nat} (h : Topo L mx ord) (n : Nat)
    (hn : n < L) (ms : List Nat) (hms : ∀ m ∈ ms, m < L ∧ m ≠ n ∧ ¬ Anc mx n m) (mx' : Nat → List Nat)
    (hmx' : ∀ k, ∀ m ∈ mx' k, m ∈ mx k ∨ (k = n ∧ m ∈ ms)) : ∃ ord', Topo L mx' ord' := by
  -- `D x`: `x` is `n` or derives from `n`
  let D : Nat → Bool := fun x => decide (x = n ∨ Anc mx n x)
  have hD : ∀ x, D x = true ↔ (x = n ∨ Anc mx n x) := fun x => by simp [D]
  let l1 := ord.filter (fun x => !D x)
  let l2 := ord.filter D
  have hmem1 : ∀ x, x ∈ l1 ↔ x ∈ ord ∧ D x = false := fun x => by simp [l1, List.mem_filter]
  have hmem2 : ∀ x, x ∈ l2 ↔ x ∈ ord ∧ D x = true := fun x => by simp [l2, List.mem_filter]
  have hlen : l1.length + l2.length = ord.length := by
    have := length_filter_add D ord
    simp only [l1, l2]; omega
  -- positions in the new order
  have hidx1 : ∀ x, x ∈ ord → D x = false → (l1 ++ l2).idxOf x = l1.idxOf x ∧ l1.idxOf x < l1.length := by
    intro x hx hdx
    have : x ∈ l1 := (hmem1 x).mpr ⟨hx, hdx⟩
    rw [List.idxOf_append, if_pos this]
    exact ⟨rfl, List.idxOf_lt_length_iff.mpr this⟩
  have hidx2 : ∀ x, D x = true → (l1 ++ l2).idxOf x = l2.idxOf x + l1.length := by
    intro x hdx
    have : ¬ x ∈ l1 := fun hh => by have := ((hmem1 x).mp hh).2; rw [hdx] at this; cases this
    rw [List.idxOf_append, if_neg this]
  -- downward closure of `D`
  have hDdown : ∀ x m, m ∈ mx x → D m = true → D x = true := by
    intro x m hm hdm
    rw [hD] at hdm ⊢
    rcases hdm with rfl | hdm
    · exact Or.inr (Anc.direct hm)
    · exact Or.inr (Anc.step hm hdm)
  refine ⟨l1 ++ l2, ?_, ?_, ?_⟩
  · rw [List.length_append, hlen]; exact h.1
  · intro x hx
    have hxo := h.2.1 x hx
    rw [List.mem_append, hmem1, hmem2]
    cases hdx : D x
    · exact Or.inl ⟨hxo, rfl⟩
    · exact Or.inr ⟨hxo, rfl⟩
  · intro x m hm
    -- the three facts we need about the edge, old or new
    have hfacts : x < L ∧ m < L ∧ ((ord.idxOf m < ord.idxOf x ∧ (D m = true → D x = true)) ∨
        (D m = false ∧ D x = true)) := by
      rcases hmx' x m hm with hold | ⟨rfl, hnew⟩
      · obtain ⟨h1, h2, h3⟩ := h.2.2 x m hold
        exact ⟨h1, h2, Or.inl ⟨h3, hDdown x m hold⟩⟩
      · obtain ⟨h1, h2, h3⟩ := hms m hnew
        refine ⟨hn, h1, Or.inr ⟨?_, (hD x).mpr (Or.inl rfl)⟩⟩
        cases hdm : D m
        · rfl
        · rcases (hD m).mp hdm with hh | hh
          · exact absurd hh h2
          · exact absurd hh h3
    obtain ⟨hxL, hmL, hcase⟩ := hfacts
    refine ⟨hxL, hmL, ?_⟩
    have hxo := h.2.1 x hxL
    have hmo := h.2.1 m hmL
    have cross : D m = false → D x = true → (l1 ++ l2).idxOf m < (l1 ++ l2).idxOf x := by
      intro hdm hdx
      rw [(hidx1 m hmo hdm).1, hidx2 x hdx]
      have := (hidx1 m hmo hdm).2
      omega
    rcases hcase with ⟨hlt, hdown⟩ | ⟨hdm, hdx⟩
    · cases hdx : D x
      · have hdm : D m = false := by
          cases hdm : D m
          · rfl
          · rw [hdown hdm] at hdx; cases hdx
        rw [(hidx1 m hmo hdm).1, (hidx1 x hxo hdx).1]
        exact idxOf_filter_lt (fun x => !D x) ord m x (by simp [hdm]) (by simp [hdx]) hlt
      · cases hdm : D m
        · exact cross hdm hdx
        · rw [hidx2 m hdm, hidx2 x hdx]
          have : l2.idxOf m < l2.idxOf x := idxOf_filter_lt D ord m x hdm hdx hlt
          omega
    · exact cross hdm hdx

/-- appending a fresh node on top -/
theorem Topo.append {L : Nat} {mx : Nat → List Nat} {ord : List Nat} (h : Topo L mx ord) :
    Topo (L + 1) mx (ord ++ [L]) := by
  refine ⟨by simp [h.1], ?_, ?_⟩
  · intro x hx
    by_cases hxl : x < L
    · exact List.mem_append_left _ (h.2.1 x hxl)
    · have : x = L := by omega
      subst this; simp
  · intro x m hm
    obtain ⟨h1, h2, h3⟩ := h.2.2 x m hm
    refine ⟨by omega, by omega, ?_⟩
    rw [List.idxOf_append, List.idxOf_append, if_pos (h.2.1 m h2), if_pos (h.2.1 x h1)]
    exact h3

end Ovld
