# random histories over a graph of functions: create / copy(linkback?) / add_mixins / register / unregister / call
# oracle: after every step, every node that has been USED answers every probe like a fresh function built from its
# current effective method table (parents' tables overlaid by its own) — unless the modifying op raised "locked".
import random, sys, collections, linecache
from ovld import Ovld
TYPES = {"int": int, "str": str, "float": float, "object": object}
cnt = [0]
def mk(tname, tag):
    cnt[0] += 1
    src = f"def m{cnt[0]}(x: T):\n    return '{tag}'\n"
    fn = f"<c16_{cnt[0]}>"; linecache.cache[fn] = (len(src), None, src.splitlines(True), fn)
    g = {"T": TYPES[tname]}; exec(compile(src, fn, "exec"), g); return g[f"m{cnt[0]}"]
def eff(node, nodes):
    d = {}
    for p in node["mixins"]: d.update(eff(nodes[p], nodes))
    d.update({t: v[-1] for t, v in node["own"].items()}); return d
def ref(d, v):
    t = type(v).__name__
    if t in d: return d[t][0]
    if "object" in d: return d["object"][0]
    return "NOMETHOD"
def probe(ov, v):
    try: return ov(v)
    except TypeError as e: return "NOMETHOD" if ("No method" in str(e) or "positional argument" in str(e)) else "TE:" + str(e)[:40]
    except Exception as e: return "EXC:" + type(e).__name__ + ":" + str(e)[:40]
stats = collections.Counter(); shown = 0
for seed in range(int(sys.argv[1]), int(sys.argv[2])):
    rnd = random.Random(seed)
    nodes = []
    def create(mixins, linkback):
        ov = Ovld(name=f"s{seed}n{len(nodes)}", mixins=[nodes[m]["ov"] for m in mixins], linkback=linkback)
        nodes.append({"ov": ov, "mixins": list(mixins), "own": {}, "used": False})
    create([], False)
    for step in range(rnd.randint(4, 14)):
        r = rnd.random(); i = rnd.randrange(len(nodes)); n = nodes[i]
        op = None
        try:
            if r < 0.2 and len(nodes) < 6:
                k = rnd.choice([1, 1, 2]); ms = rnd.sample(range(len(nodes)), min(k, len(nodes)))
                op = ("create", ms); create(ms, rnd.random() < 0.5)
            elif r < 0.5:
                t = rnd.choice(list(TYPES)); tag = f"n{i}:{t}:{step}"
                op = ("register", i, t); fn = mk(t, tag); n["ov"].register(fn); n["own"].setdefault(t, []).append((tag, fn))
            elif r < 0.6 and n["own"]:
                t = rnd.choice(list(n["own"])); op = ("unregister", i, t); n["ov"].unregister(n["own"][t][-1][1]); n["own"][t].pop(); n["own"][t] or n["own"].pop(t)
            elif r < 0.68 and len(nodes) > 1:
                j = rnd.randrange(len(nodes))
                if j != i and j < i:   # keep the graph acyclic: only older nodes as mixins
                    op = ("add_mixins", i, j); n["ov"].add_mixins(nodes[j]["ov"]); n["mixins"].append(j)
            else:
                op = ("call", i); n["used"] = True; probe(n["ov"], rnd.choice([1, "a", 1.5]))
        except Exception as e:
            if "locked" in str(e): stats["locked"] += 1
            elif isinstance(e, TypeError) and ("Argument" in str(e)): stats["config"] += 1
            else: stats["EXC:" + type(e).__name__] += 1
        # check all used nodes
        for j, m in enumerate(nodes):
            if not m["used"]: continue
            d = eff(m, nodes)
            for v in (1, "a", 1.5, None):
                stats["probes"] += 1
                got, exp = probe(m["ov"], v), ref(d, v)
                if got != exp:
                    stats["STALE"] += 1
                    if shown < 5: shown += 1; print("STALE seed", seed, "step", step, "after", op, "node", j, repr(v), "got", got, "exp", exp)
print(dict(stats))
