import Ovldverif.Spec.Runs
import Ovldverif.Lemmas.CacheInv
import Ovldverif.Lemmas.PlanOK
import Ovldverif.Lemmas.FnInv
/-!
# C18 (cache-miss resolution) — an interrupted resolution leaves nothing that later lookups can trip over

`resolve` collects its dict writes top-down and applies them bottom-up, the entry of the looked-up key last
(`Model/Cache.lean: ws`, the `fix:` for finding D35).  `lookupCut` is a lookup whose resolution is interrupted after
an arbitrary number `n` of those writes.  The cache invariant `CInv` only promises the `call_next` entries of a
key whose own entry is present, so every prefix of the writes preserves it, and with it every theorem proved
from `CInv` (C04, C05, C07, C20) extends to histories containing interrupted lookups.
-/
set_option autoImplicit false
namespace Ovld

section generic
variable {K F E : Type} [DecidableEq K] (plan : K → Plan F E)

/-- an interrupted lookup preserves the cache invariant, wherever the interrupt falls -/
theorem inv_lookupCut (ok : PlanOK plan) (st : St K F E) (ck : CKey K) (n : Nat) (h : CInv plan st) :
    CInv plan (lookupCut plan st ck n) :=
  lookupCut_inv plan ok st ck n h

theorem inv_runL (ok : PlanOK plan) : ∀ (hist : List (LOp K)) (st : St K F E), CInv plan st →
    CInv plan (runL plan st hist) :=
  runL_inv plan ok

/-- **C18, resolution level**: after ANY history of completed and interrupted lookups (interrupted after any
    number of writes), a lookup returns what it returns on a table on which nothing was ever looked up -/
theorem C18_interrupted_lookups_harmless (ok : PlanOK plan) (hist : List (LOp K)) (ck : CKey K) :
    (lookup plan (runL plan (St.empty : St K F E) hist) ck).2 = pureLookup plan ck :=
  (lookup_spec plan ok _ ck (inv_runL plan ok hist _ (inv_empty plan))).1

end generic

/-- a history of completed and interrupted lookups on the public table -/
def MMap.runL (cfg : Cfg) (mm : MMap) : List (LOp Key) → MMap
  | [] => mm
  | .look ck :: rest => MMap.runL cfg (mm.lookup cfg ck).1 rest
  | .cut ck n :: rest => MMap.runL cfg (mm.lookupCut cfg ck n) rest

theorem MMap.runL_inv (cfg : Cfg) (ms : List Meth) (ok : PlanOK (plan cfg ms)) :
    ∀ (hist : List (LOp Key)) (mm : MMap), MInv cfg ms mm → MInv cfg ms (mm.runL cfg hist)
  | [], _, h => h
  | .look ck :: rest, mm, h => MMap.runL_inv cfg ms ok rest _ (MMap.lookup_spec cfg ms ok mm h ck).2
  | .cut ck n :: rest, mm, h => MMap.runL_inv cfg ms ok rest _ (MMap.lookupCut_inv cfg ms ok mm h ck n)

/-- the same on the public multi-type table of any set of methods with distinct handlers: ordinary keys and
    `call_next` continuation keys, any types -/
theorem C18_table (cfg : Cfg) (ms : List Meth) (hd : DistinctHandlers ms)
    (hist : List (LOp Key)) (ck : CKey Key) :
    (((MMap.fresh ms).runL cfg hist).lookup cfg ck).2 = ((MMap.fresh ms).lookup cfg ck).2 := by
  have ok := plan_ok cfg ms hd.ids hd.codes
  have h0 := MMap.fresh_inv cfg ms
  have h1 := MMap.runL_inv cfg ms ok hist _ h0
  rw [(MMap.lookup_spec cfg ms ok _ h1 ck).1, (MMap.lookup_spec cfg ms ok _ h0 ck).1]

end Ovld
