/-! Scratch prototype: graphlib-style batching (sort_types) and its monotonicity. -/
set_option autoImplicit false
variable {α : Type} [DecidableEq α]

/-- one step of TopologicalSorter: nodes all of whose predecessors are done -/
def ready (pred : α → List α) (rem done : List α) : List α :=
  rem.filter (fun v => (pred v).all (fun u => u ∈ done))

/-- batches in the order get_ready() yields them; stops (like a CycleError would) when nothing is ready -/
def batches (pred : α → List α) : Nat → List α → List α → List (List α)
  | 0, _, _ => []
  | f + 1, rem, done =>
    let r := ready pred rem done
    if r = [] then [] else r :: batches pred f (rem.filter (fun v => v ∉ r)) (done ++ r)

/-- index of the batch containing v, counted from `start` -/
def batchIdx (v : α) : List (List α) → Nat → Option Nat
  | [], _ => none
  | b :: bs, i => if v ∈ b then some i else batchIdx v bs (i + 1)

theorem batchIdx_ge (v : α) : ∀ (bs : List (List α)) (i j : Nat), batchIdx v bs i = some j → j ≥ i := by
  intro bs
  induction bs with
  | nil => intro i j h; simp [batchIdx] at h
  | cons b bs ih =>
    intro i j h
    simp only [batchIdx] at h
    split at h
    · cases h; omega
    · have := ih (i+1) j h; omega

/-- Key invariant: anything placed in a batch has all its predecessors in `done` at that time;
    and `done` only contains nodes of earlier batches (or the initial `done`). -/
theorem pred_before (pred : α → List α) :
    ∀ (f : Nat) (rem done : List α) (start : Nat) (u v : α) (jv : Nat),
      u ∈ pred v →
      batchIdx v (batches pred f rem done) start = some jv →
      (u ∈ done) ∨ (∃ ju, batchIdx u (batches pred f rem done) start = some ju ∧ ju < jv) := by
  intro f
  induction f with
  | zero => intro rem done start u v jv _ h; simp [batches, batchIdx] at h
  | succ f ih =>
    intro rem done start u v jv hu h
    by_cases hr : ready pred rem done = []
    · simp [batches, hr, batchIdx] at h
    · have hb : batches pred (f+1) rem done =
          ready pred rem done :: batches pred f (rem.filter (fun v => v ∉ ready pred rem done)) (done ++ ready pred rem done) := by
        simp [batches, hr]
      rw [hb] at h ⊢
      simp only [batchIdx] at h ⊢
      by_cases hv : v ∈ ready pred rem done
      · left
        have := hv
        simp only [ready, List.mem_filter, List.all_eq_true, decide_eq_true_eq] at this
        exact this.2 u hu
      · rw [if_neg hv] at h
        have := ih (rem.filter (fun v => v ∉ ready pred rem done)) (done ++ ready pred rem done) (start+1) u v jv hu h
        rcases this with hd | ⟨ju, hju, hlt⟩
        · rcases List.mem_append.mp hd with hd | hd
          · left; exact hd
          · right
            refine ⟨start, by rw [if_pos hd], ?_⟩
            have := batchIdx_ge v _ _ _ h; omega
        · right
          by_cases hub : u ∈ ready pred rem done
          · refine ⟨start, by rw [if_pos hub], ?_⟩
            have := batchIdx_ge u _ _ _ hju; omega
          · exact ⟨ju, by rw [if_neg hub]; exact hju, hlt⟩

/-- sort_types monotonicity: starting from nothing done, a predecessor sits in a strictly earlier batch. -/
theorem pred_earlier (pred : α → List α) (f : Nat) (nodes : List α) (u v : α) (jv : Nat)
    (hu : u ∈ pred v) (h : batchIdx v (batches pred f nodes []) 0 = some jv) :
    ∃ ju, batchIdx u (batches pred f nodes []) 0 = some ju ∧ ju < jv := by
  rcases pred_before pred f nodes [] 0 u v jv hu h with hd | r
  · cases hd
  · exact r
#print axioms pred_earlier
