#!/bin/sh
# usage: tools/try_mutation.sh <worktree> <name> <prop> [more props...]
# validates a seeded change (tests still pass, demo fails with / passes without), stores it under seeded/<name>,
# applies it to /repo, runs the given checks, and undoes it.
WT=$1; NAME=$2; shift 2
D=/verif/seeded/$NAME
mkdir -p $D
git -C $WT diff -- src > $D/patch.diff
cp $WT/demo_mutation.py $D/demo.py 2>/dev/null
cp $WT/MUTATION.md $D/MUTATION.md 2>/dev/null
echo "== demo WITH change (in worktree)"; (cd $WT && PYTHONPATH=$WT/src /venv/bin/python $WT/demo_mutation.py 2>&1 | tail -3; echo "exit=$?")
echo "== tests WITH change"; (cd $WT && PYTHONPATH=$WT/src /venv/bin/python -m pytest -q -p no:cacheprovider 2>&1 | tail -1)
echo "== demo WITHOUT change (on /repo)"; (cd /tmp && PYTHONPATH=/repo/src /venv/bin/python $D/demo.py 2>&1 | tail -2)
git -C /repo apply $D/patch.diff || { echo "PATCH DOES NOT APPLY"; exit 1; }
for P in "$@"; do
  echo "== check $P on mutated /repo"
  (cd /verif && VERIF_SEED=1 ./check $P 2>&1 | grep -v KNOWN | tail -4 | cut -c1-300)
done
git -C /repo checkout -- .
git -C /repo status --short | head -3
