"""Development-time helper (never run by a check): copy the witnesses of unlisted failing classes from
replay files into known_findings.json after they have been triaged by hand."""
import glob, json, sys
prop = sys.argv[1]
what = {
 "D34": "an interrupt that arrives after register/unregister has changed the definitions but before the rebuild has started (core.py _register / _update) leaves the previous table in service: calls dispatch over the old method set until another change succeeds",
 "D10": "recurse / call_next inside the iterable of a comprehension is rewritten with an assignment expression, which Python forbids there: registering the method raises SyntaxError (recode.py visit_Call)",
 "D11": "recurse(x, **kw): the double-starred argument is treated as a keyword named None (key element (None, dict), call passes **tmp) instead of expanding the keywords (recode.py visit_Call L433-443)",
 "D12": "a body that uses both recurse and the function's own name (or call_next and the name) has only the first symbol rewritten; the other hits the Unusable placeholder / UsageError (recode.py adapt_function L505-508)",
 "D25": "call_next(*args) takes the non-inlined path, which is only valid for recurse: UsageError 'call_next should be called right away' at build time (recode.py visit_Call L405-406)",
 "D3": "typeorder between two types that both carry a __type_order__ hook of different design (Union/Intersection/Exactly/dependent) is not mirror-symmetric; whole-function dispatch over such types follows the direction the library happens to compare in (or sort_types hits a cycle)",
 "D23": "ranks are formed at the type level: a value-dependent method whose condition fails on the actual values still dominates and pushes other methods into lower ranks, so the first rank with a match wins although the matching methods are ambiguous by the documented rule (typemap.py _pull / resolve)",
 "D32": "the lookup-table path of Literal dispatch hashes the argument: an unhashable argument (list, dict) raises TypeError instead of falling through",
 "D4": "Equals.get_keys returns only the first value of a Literal: on the lookup-table path (4 or more literal methods) the other values of a multi-valued Literal are lost, and exclusivity is inferred from the first values only (dependent.py L261-262, recode.py L211-223)",
 "D6": "overlapping Literal methods (equal values, or 1 == True) run the first match / the last table entry instead of raising the ambiguity (recode.py L211-223)",
 "D4D6": "Literal dispatch: first value only on the table path, first match on overlapping literals (findings D4 and D6 seen through whole functions)",
 "D7": "a value-dependent member of a Union / Intersection is checked without its bound and nested combinators are spliced without parentheses: conditions run on values outside their bound, exceptions leak, methods run on values their annotation excludes (types.py L323-329, L374-380)",
 "D20": "a dependent rank that falls through into a tied static rank raises 'No method' instead of the ambiguity (typemap.py L318, recode.py L280)",
 "D1D23": "levels of unrelated types / membership of a dependent rank depends on the sort head (findings D1, D23 with dependent types)",
 "D13": "an ancestor reached through an unlinked edge that is not the direct parent of the built function (or through a path mixing linked and unlinked edges) is neither locked nor propagating: it accepts a modification and the built descendant silently keeps the old table (core.py compile L487-489, lock L427-428)",
 "D14": "add_mixins on a function that is already in use (or on one of its linked ancestors) does not rebuild: the new mixin's methods are ignored (core.py add_mixins L434-440 has no _update())",
 "D1": "levels are integers: two applicable declared types that are unrelated (neither a subclass of the other) at different depths compare as ordered, so a method wins although the documented rule says Ambiguous (typemap.py Candidate.dominates / sort_key)",
 "D8": "the generated entry point's early exit for an omitted optional positional truncates the lookup key and the forwarded arguments: keyword arguments are dropped / another method runs / the call is rejected (recode.py generate_dispatch L149-160)",
 "D9": "a call with zero arguments bypasses resolution: MultiTypeMap.empty is the last registered zero-parameter entry whatever the priorities, and methods whose parameters are all optional are ignored (typemap.py L213-214, L377-382)",
 "D18": "call_next with a key for which the current method sits below a tied rank raises that rank's ambiguity instead of resolving among the methods below the current one (typemap.py __missing__ L364-366)",
 "D21": "tiebreaks are compared across different signatures: a negative tiebreak left behind by unregister (or carried by a replaced signature) decides between methods of different signatures where a fresh function is ambiguous (core.py _set / unregister, typemap.py dominates)",
 "D24": "call_next / f.next with zero arguments raises a raw KeyError(()) instead of the 'No method' TypeError (typemap.py __missing__ L364-367: self.all[()] is never set)",
 "D3": "typeorder is not mirror-symmetric when two effective __type_order__ hooks of different design face each other ({pair}): each hook answers from its own side only (types.py Union/Intersection.__type_order__, Exactly handler, dependent.py DependentType.__type_order__)",
 "D22": "two evaluations of Exactly[A] are unequal objects (SingleFunctionHandler has identity equality) and compare MORE in both directions",
 "D17": "subclasscheck is not transitive through {pair}: B <= A <= T but not B <= T; inherent in the documented meaning of the constructor",
}
what["D23"] = what["D23"] + "; or it sits in one type-level rank with static methods that recency or a lower rank would have separated, and the dispatcher of that rank, which counts matches, reports an ambiguity although the documented rule has a winner"
what["D46"] = "a parameter called MISSING, KWARGS, TARGS, OVLD or ARG<n> collides with a name hard-wired in the generated entry point"
what["D8b"] = "an optional positional parameter passed by keyword while an earlier optional positional is omitted: the generated entry point exits at the first omitted positional, so the keyword-given one is not part of the lookup key (and may be rejected or routed to another method); residual of finding D8, whose repair keeps keyword-only arguments (recode.py generate_dispatch early exits)"
path = "/verif/known_findings.json"
try:
    data = json.load(open(path))
except Exception:
    data = {"findings": [], "fixed": []}
have = {(f["property"], f["id"]) for f in data["findings"]}
for f in sorted(glob.glob(f"/verif/replays/{prop}_*.json")):
    d = json.load(open(f))
    law = d.get("law", "")
    if not law.startswith("failing class "):
        continue
    cid = law.split()[2]
    if (prop, cid) in have:
        continue
    d_id, _, pair = cid.partition(":")
    data["findings"].append({"property": prop, "id": cid, "defect": d_id, "what": what[d_id].format(pair=pair), "witness": d["witness"]})
    have.add((prop, cid))
json.dump(data, open(path, "w"), indent=1)
print(len(data["findings"]), "findings")
