# Prototype of the C02 spec oracle vs the real code, to validate the formalisation and the hypotheses (scratch only)
import random, sys, itertools
import ovld.typemap as tm
from ovld import Ovld
class PermSet(set):
    _seq = 0
    def __init__(self, it=()):
        super().__init__(); self._ord = {}
        for x in it: self.add(x)
    def add(self, x):
        if x not in self:
            PermSet._seq += 1; self._ord[x] = PermSet._seq
        super().add(x)
    def __iter__(self):
        return iter(sorted(super().__iter__(), key=lambda x: self._ord[x]))
    def __iand__(self, other):
        for x in list(super().__iter__()):
            if x not in other: super().discard(x); self._ord.pop(x, None)
        return self
tm.set = PermSet

def gen(seed):
    rnd = random.Random(seed)
    n = rnd.randint(2, 6)
    classes = []
    for i in range(n):
        k = rnd.choice([0, 1, 1, 2, 2, 3])
        k = min(k, len(classes))
        bases = tuple(rnd.sample(classes, k))
        try: c = type(f"K{i}", bases or (object,), {})
        except TypeError: c = type(f"K{i}", (object,), {})
        classes.append(c)
    types = classes + [object]
    nm = rnd.randint(1, 6)
    npos = rnd.choice([1, 1, 2, 2, 3])
    meths = []
    for j in range(nm):
        ar = rnd.randint(max(1, npos - 1), npos)
        nopt = rnd.choice([0, 0, 0, 1]) if ar > 1 else 0
        ts = [rnd.choice(types) for _ in range(ar)]
        prio = rnd.choice([0, 0, 0, 1, -1])
        if meths and rnd.random() < 0.2:
            ts, ar0, nopt, prio = list(meths[rnd.randrange(len(meths))][0]), None, meths[-1][2], meths[-1][1]
            ts = list(ts)
        meths.append((tuple(ts), prio, nopt))
    calls = [tuple(rnd.choice(classes) for _ in range(rnd.randint(max(1, npos - 1), npos))) for _ in range(6)]
    return classes, meths, calls

def build(meths):
    F = Ovld(name="F")
    fns = []
    for j, (ts, prio, nopt) in enumerate(meths):
        ar = len(ts)
        params = []
        for i in range(ar):
            params.append(f"a{i}: T{i}" + (" = None" if i >= ar - nopt else ""))
        src = f"def m{j}({', '.join(params)}):\n    return {j}\n"
        g = {f"T{i}": t for i, t in enumerate(ts)}
        exec(compile(src, f"<g{j}>", "exec"), g)
        fns.append(g[f"m{j}"])
        F.register(g[f"m{j}"], priority=prio)
    return F, fns

def impl(F, call):
    try: return ("ran", F(*[c() for c in call]))
    except TypeError as e:
        s = str(e)
        return ("amb",) if s.startswith("Ambig") else ("nomethod",) if (s.startswith("No method") or "positional argument" in s) else ("TE", s[:50])

def spec(meths, call):
    n = len(call)
    # resulting method set: later registration of identical signature (types, arity, opt, prio) replaces -> tiebreak order
    app = []
    for j, (ts, prio, nopt) in enumerate(meths):
        if len(ts) - nopt <= n <= len(ts) and all(issubclass(c, t) for c, t in zip(call, ts)):
            app.append(j)
    def sig(j): return meths[j]
    def beats(a, b):
        (ta, pa, oa), (tb, pb, ob) = meths[a], meths[b]
        if pa > pb: return True
        if pa < pb: return False
        ra, rb = ta[:n], tb[:n]
        if ra != rb:
            return all(issubclass(x, y) for x, y in zip(ra, rb))
        if sig(a) == sig(b): return a > b
        return False
    winners = [a for a in app if all(beats(a, b) for b in app if b != a)]
    if len(winners) == 1: return ("ran", winners[0])
    return ("nomethod",) if not app else ("amb",)

def faithful(meths, call, classes):
    n = len(call)
    app = [ts for (ts, p, o) in meths if len(ts) - o <= n <= len(ts) and all(issubclass(c, t) for c, t in zip(call, ts))]
    for i in range(n):
        for a in app:
            for b in app:
                if not (issubclass(a[i], b[i]) or issubclass(b[i], a[i])): return False
    return True
def faithful_old(meths, call, classes):
    # levels as the code computes them; Faithful: level(t1) > level(t2) -> t1 strict subclass of t2, for applicable registered types per position
    from ovld.mro import sort_types
    n = len(call)
    for i in range(n):
        reg = []
        for (ts, p, o) in meths:
            if i < len(ts) and ts[i] not in reg: reg.append(ts[i])
        groups = list(sort_types(call[i], reg))
        lvl = {}
        for l, g in enumerate(reversed(groups)):
            for t in g: lvl[t] = l
        for t1 in lvl:
            for t2 in lvl:
                if t1 is not t2 and lvl[t1] >= lvl[t2] and not (issubclass(t1, t2)): return False
    return True

bad = unf = tot = 0; EXC = 0
kinds = {}
for seed in range(int(sys.argv[1]), int(sys.argv[2])):
    classes, meths, calls = gen(seed)
    try: F, fns = build(meths)
    except Exception as e:
        continue
    for call in calls:
        tot += 1
        try: i = impl(F, call)
        except Exception as e: i = ("EXC", type(e).__name__)
        s = spec(meths, call)
        EXC += (not faithful(meths, call, classes))
        if i != s:
            fa = faithful(meths, call, classes)
            if fa:
                bad += 1
                if bad <= 8: print("MISMATCH(faithful) seed", seed, [c.__name__ for c in call], "impl", i, "spec", s, [( [t.__name__ for t in ts], p, o) for ts, p, o in meths])
            else:
                unf += 1
print("excluded_total", EXC, "of", tot); print("total", tot, "mismatch faithful", bad, "mismatch unfaithful(D1 class)", unf)
