import Ovldverif.Model.ConcBuild
import Ovldverif.Props.C18
/-!
# C19 (lazy build) — concurrent first calls behave like sequential calls

For every method set, every number of threads, every choice of routes and EVERY schedule (list of thread indices of
any length): a thread that has finished was either answered by the entry point of the complete method set over the
complete table, or got an error — and an error only if the method set really contains an offending method; the
function is left `Safe` (Props/C18.lean) once no thread holds the lock.
-/
set_option autoImplicit false
namespace Ovld.ConcBuild
open Ovld.Build

/-- **each call returns what it would have returned alone**: no spurious missing-method / ambiguity from a
    partially or doubly filled table -/
theorem C19_first_calls (cfg : Cfg) (s : S) (hs : Safe s) (routes : List Route) (sched : List Nat)
    (i : Nat) (r : Route) (o : Out)
    (hd : (run cfg (init s routes) sched).threads[i]? = some { route := r, pc := .done o }) :
    (o = .served s.defns s.defns) ∨ (o = .error ∧ ¬ AllGood cfg s.defns) := by
  sorry

/-- **the function is left in a correct state**: whenever the lock is free the shared state is `Safe`, with the
    definitions unchanged -/
theorem C19_state_safe (cfg : Cfg) (s : S) (hs : Safe s) (routes : List Route) (sched : List Nat)
    (hl : (run cfg (init s routes) sched).lock = none) :
    Safe (run cfg (init s routes) sched).s ∧ (run cfg (init s routes) sched).s.defns = s.defns := by
  sorry

/-- no deadlock: as long as some thread has not finished, some thread can move -/
theorem C19_progress (cfg : Cfg) (s : S) (hs : Safe s) (routes : List Route) (sched : List Nat)
    (hnd : ∃ i t, (run cfg (init s routes) sched).threads[i]? = some t ∧ ∀ o, t.pc ≠ .done o) :
    ∃ j, stepThread cfg (run cfg (init s routes) sched) j ≠ run cfg (init s routes) sched := by
  sorry

/-- non-vacuity: two threads racing the first call of a two-method function, pre-empted in the middle of the fill -/
example :
    let cfg : Cfg := ⟨fun _ => false, fun _ => true⟩
    let s : S := { defns := [1, 2] }
    let sys := run cfg (init s [.obj, .fn]) [0, 0, 0, 0, 0, 0, 1, 1, 1, 1, 1, 0, 0, 0, 0, 0, 0, 0, 1, 1, 1, 1, 1, 1, 1]
    sys.threads.map (·.pc) = [.done (.served [1, 2] [1, 2]), .done (.served [1, 2] [1, 2])] := by
  sorry

end Ovld.ConcBuild
