import Ovldverif.Model.Build
/-!
# Layer K (1/2): several threads calling one function object whose lazy build has not happened yet

Shared state: the build state `Build.S` of `Model/Build.lean` plus the holder of `Ovld._compile_lock`.  Every
thread runs one call, through the function object (`Ovld.__call__`) or through the dispatch function; its program
counter advances by one shared-memory access per step (reading `_compiled`, reading `dispatch.__code__`, taking
or releasing the lock, one micro-step of `_compile`, reading the table), so a schedule — a list of thread indices —
can interleave the calls at every such access.

core.py (after the `fix:` for finding D16a):
  `ensure_compiled`: `if not self._compiled: with self._compile_lock: if not self._compiled: self.compile()`
  `first_entry` (the trampoline): `ov.ensure_compiled(); return ov.dispatch(*args, **kwargs)`
  `_compile`: new table, argument analysis, one registration per method, swap of the generated code, flag.
No interrupts here (`Model/Build.lean` has them); natural failures (`Cfg.bad`, `Cfg.namesOK`) are kept.
-/
set_option autoImplicit false
namespace Ovld.ConcBuild
open Ovld.Build

inductive PC
  /-- about to read `_compiled` (entry of `ensure_compiled`); `k` = what to do afterwards -/
  | chk1
  /-- waiting for / about to take the lock -/
  | acq
  /-- lock held: about to read `_compiled` again -/
  | chk2
  /-- lock held, building: about to replace the table -/
  | bNew
  /-- lock held, building: about to analyse the arguments -/
  | bNames
  /-- lock held, building: about to register the remaining methods `rest` -/
  | bFill (rest : List Nat)
  /-- lock held, building: about to swap the generated code in -/
  | bSwap
  /-- lock held, building: about to set the flag -/
  | bFlag
  /-- lock held, a build failed: about to run the handler and release -/
  | bFail
  /-- lock held: about to release it -/
  | rel
  /-- about to read `dispatch.__code__` -/
  | disp
  /-- running the generated code of the method set `e`: about to read `OVLD.map` -/
  | look (e : List Nat)
  | done (o : Out)
deriving DecidableEq, Repr

structure Thread where
  route : Route
  pc : PC
deriving Repr

structure Sys where
  s : S
  lock : Option Nat := none
  threads : List Thread

def startPC : Route → PC
  | .obj => .chk1
  | .fn => .disp

/-- one step of thread `i`; a thread waiting for a lock somebody else holds does not move -/
def stepThread (cfg : Cfg) (sys : Sys) (i : Nat) : Sys :=
  match sys.threads[i]? with
  | none => sys
  | some t =>
    let set (pc : PC) (s : S := sys.s) (lock : Option Nat := sys.lock) : Sys :=
      { s := s, lock := lock, threads := sys.threads.set i { t with pc := pc } }
    match t.pc with
    | .chk1 => if sys.s.compiled then set .disp else set .acq
    | .acq =>
      match sys.lock with
      | none => set .chk2 sys.s (some i)
      | some j => if j = i then set .chk2 else sys
    | .chk2 => if sys.s.compiled then set .rel else set .bNew
    | .bNew => set .bNames { sys.s with table := [] }
    | .bNames => if cfg.namesOK sys.s.defns then set (.bFill sys.s.defns) else set .bFail
    | .bFill [] => set .bSwap
    | .bFill (d :: rest) =>
      if cfg.bad d then set .bFail else set (.bFill rest) { sys.s with table := sys.s.table ++ [d] }
    | .bSwap => set .bFlag { sys.s with entry := some sys.s.defns }
    | .bFlag => set .rel { sys.s with compiled := true }
    | .bFail => set (.done .error) (handler sys.s) none
    | .rel => set .disp sys.s none
    | .disp =>
      match sys.s.entry with
      | some e => set (.look e)
      | none => set .chk1          -- the trampoline: ensure_compiled, then dispatch again
    | .look e => set (.done (.served e sys.s.table))
    | .done _ => sys

def run (cfg : Cfg) (sys : Sys) : List Nat → Sys
  | [] => sys
  | i :: sched => run cfg (stepThread cfg sys i) sched

/-- the system in which `routes.length` threads are about to call a function in build state `s` -/
def init (s : S) (routes : List Route) : Sys :=
  { s := s, threads := routes.map (fun r => { route := r, pc := startPC r }) }

end Ovld.ConcBuild
