import Ovldverif.Model.Ty
/-!
# Layer A (3/3): `mro.typeorder`, `mro.subclasscheck` and CPython's `issubclass` on the modelled types

Follows `src/ovld/mro.py` L43-157 branch by branch, with the hooks of `types.py`
(`Union`/`Intersection`/`SingleFunctionHandler`) and `dependent.py` (`DependentType`, `ProductType`,
`FuncDependentType.__lt__`) inlined.  All three functions recurse on a fuel argument
(`fuel := size t1 + size t2 + 1` at the top), so that they evaluate under `decide`.

The class hierarchy enters only through three tables, re-extracted from the live classes of every
scenario by the correspondence harness: `sub c d = issubclass(c, d)`, `hasAttr c m = hasattr(c, m)`,
`pred k c` = the k-th user `class_check` predicate on class `c`.  Class id 0 is `object`.
-/
set_option autoImplicit false

namespace Ovld

structure Hier where
  sub : Nat → Nat → Bool
  hasAttr : Nat → Nat → Bool
  pred : Nat → Nat → Bool

/-- `Union.__type_order__` (types.py L331-343) on the list of member comparisons -/
def unionOrd (cmp : List TOrd) : TOrd :=
  let c := cmp.filter (fun x => !x.isNone)
  if c.isEmpty then .none else if c.any TOrd.isMS then .more else .less

/-- `Intersection.__type_order__` (types.py L382-394) -/
def interOrd (cmp : List TOrd) : TOrd :=
  let c := cmp.filter (fun x => !x.isNone)
  if c.isEmpty then .none else if c.any TOrd.isLS then .less else .more

def zipWithT {α : Type} (f : Ty → Ty → α) : List Ty → List Ty → List α
  | a :: as, b :: bs => f a b :: zipWithT f as bs
  | _, _ => []

section
variable (H : Hier)

/-- `issubclass(t1, c2)` for a plain class `c2` -/
def issubCls (t1 : Ty) (c2 : Nat) : Bool :=
  match t1 with
  | .cls c1 => H.sub c1 c2
  | .gen .. => false
  | _ => c2 == 0

/-- the `StrictSubclass` handler -/
def strictH (t1 : Ty) (c : Nat) : Bool :=
  match t1 with
  | .cls c1 => H.sub c1 c && c1 != c
  | .gen .. => false
  | _ => c == 0

/-- the `HasMethod` handler (`hasattr` of an alias forwards to its origin) -/
def hasmH (t1 : Ty) (m : Nat) : Bool :=
  match t1 with
  | .cls c1 => H.hasAttr c1 m
  | .gen o _ => H.hasAttr o m
  | _ => false

/-- a user `class_check` predicate (total; false on anything that is not a plain class) -/
def predH (t1 : Ty) (k : Nat) : Bool :=
  match t1 with
  | .cls c1 => H.pred k c1
  | _ => false

/-! The branch bodies take the two recursive functions (at the smaller fuel) as parameters `to` / `sc`,
so that `tord` / `subc` are structurally recursive on the fuel and evaluate under `decide`. -/
section bodies
variable (to : Ty → Ty → TOrd) (sc : Ty → Ty → Bool)

/-- CPython's `issubclass(t1, t2)` for non-alias operands (metaclass `__subclasscheck__`s included) -/
def pyIssub : Ty → Ty → Bool
  | t1, .cls c2 => issubCls H t1 c2
  | t1, .union ts => ts.any (fun t => sc t1 t)
  | t1, .inter ts => ts.all (fun t => sc t1 t)
  | t1, .exactly _ c => Ty.beq t1 (.cls c)
  | t1, .strict _ c => strictH H t1 c
  | t1, .hasm _ m => hasmH H t1 m
  | t1, .pred _ k => predH H t1 k
  | _, _ => false

/-- mro.py L67-106: neither operand has an effective `__type_order__` -/
def tstruct : Ty → Ty → TOrd
  | .gen o1 a1, .gen o2 a2 =>
    let r := to (.cls o1) (.cls o2)
    if r != .same then r
    else if !a1.isEmpty && a2.isEmpty then .less
    else if !a2.isEmpty && a1.isEmpty then .more
    else if a1.length != a2.length then .none
    else TOrd.merge (zipWithT to a1 a2)
  | .gen o1 _, t2 =>
    let r := to (.cls o1) t2
    if r == .same then .less else r
  | t1, .gen o2 _ =>
    let r := to (.cls o2) t1
    (if r == .same then TOrd.less else r).opposite
  | t1, t2 => ofSub (pyIssub H sc t1 t2) (pyIssub H sc t2 t1)

/-- `DependentType.__type_order__` (dependent.py L95-114) -/
def depHook (self bound other : Ty) : TOrd :=
  match other.bound? with
  | some ob =>
    let o := to bound ob
    if o == .same then
      if Ty.depLt self other then .less
      else if Ty.depLt other self then .more
      else .none
    else o
  | none =>
    if sc other bound || sc bound other then .less else .none

/-- `self.__type_order__(other)`; `none` = no such attribute, or `NotImplemented` -/
def hook : Ty → Ty → Option TOrd
  | .union ts, other => some (unionOrd (ts.map (fun t => to t other)))
  | .inter ts, other => some (interOrd (ts.map (fun t => to t other)))
  | .exactly _ c, other =>
    some (if Ty.beq other (.cls c) then .less else to (.cls c) other)
  | .prod ps _, .prod qs _ =>
    some (if ps.length == qs.length then TOrd.merge (zipWithT to ps qs) else .none)
  | .lit k b, other => some (depHook to sc (.lit k b) b other)
  | .fdep fn ps b, other => some (depHook to sc (.fdep fn ps b) b other)
  | _, _ => none

/-- `subclasscheck` for unequal operands, by the kind of `t2` -/
def subcNe : Ty → Ty → Bool
  -- `__is_supertype__`
  | t1, .union ts => ts.any (fun t => sc t1 t)
  | t1, .inter ts => ts.all (fun t => sc t1 t)
  | t1, .exactly _ c => Ty.beq t1 (.cls c)
  | t1, .strict _ c => strictH H t1 c
  | t1, .hasm _ m => hasmH H t1 m
  | t1, .pred _ k => predH H t1 k
  | t1, .lit _ b => if t1.isDepTop then false else sc t1 b
  | t1, .prod _ b => if t1.isDepTop then false else sc t1 b
  | t1, .fdep _ _ b => if t1.isDepTop then false else sc t1 b
  -- generic aliases (L129-152)
  | .gen o1 a1, .gen o2 a2 =>
    H.sub o1 o2 && a1.length == a2.length && (zipWithT sc a1 a2).all id
  | .cls c1, .gen o2 a2 => H.sub c1 o2 && a2.isEmpty
  | _, .gen o2 a2 => o2 == 0 && a2.isEmpty
  | .gen o1 _, .cls c2 => H.sub o1 c2
  -- plain `issubclass` (L154-157)
  | t1, .cls c2 => issubCls H t1 c2

end bodies

mutual
/-- `typeorder(t1, t2)` (mro.py L43-106) -/
def tord : Nat → Ty → Ty → TOrd
  | 0, _, _ => .none
  | f + 1, t1, t2 =>
    if Ty.beq t1 t2 then .same else
    match hook (tord f) (subc f) t1 t2 with
    | some r => r
    | none =>
      match hook (tord f) (subc f) t2 t1 with
      | some r => r.opposite
      | none => tstruct H (tord f) (subc f) t1 t2

/-- `subclasscheck(t1, t2)` (mro.py L109-157) -/
def subc : Nat → Ty → Ty → Bool
  | 0, _, _ => false
  | f + 1, t1, t2 =>
    if Ty.beq t1 t2 then true else subcNe H (subc f) t1 t2
end

def typeorder (t1 t2 : Ty) : TOrd := tord H (t1.size + t2.size + 1) t1 t2
def subclasscheck (t1 t2 : Ty) : Bool := subc H (t1.size + t2.size + 1) t1 t2

end
end Ovld
