"""Replay of table-level and function-level witnesses of known findings on the real code."""
import json


def replay(w):
    kind = w["kind"]
    from world import World

    wd = World(w["world"])
    if kind == "table-fresh":
        import check_table

        sc = w["scenario"]
        j = w["op_index"]
        im = check_table.run_impl(wd, sc)
        return im[j]["r"] != check_table.fresh_impl(wd, sc, j)
    if kind == "table":
        import check_table

        sc = w["scenario"]
        j = w["op_index"]
        im = check_table.run_impl(wd, sc)
        got = check_table.kind(im[j]["r"])
        if "spec" in w:
            return got != w["spec"]
        return got == w.get("impl", got) and got[0] == "keyerror"
    if kind == "fn":
        import check_fn
        from fnlevel import FnWorld

        sc = w["scenario"]
        j = w["op_index"]
        im = FnWorld(wd, sc).run()
        got = check_fn.ot(im[j])
        if "fresh" in w:
            fr = check_fn.fresh_call(wd, sc, j)
            return check_fn.ot(fr) != got
        return got == check_fn.ot(w["impl"])
    if kind == "graph":
        from corr_g import GraphWorld

        sc = w["scenario"]
        im = GraphWorld(wd, sc).run()
        b = im[w["op_index"]]
        return {"o": b["o"], "t": b.get("t")} != w["expected"]
    raise ValueError(kind)
