import Ovldverif.Props.C07
import Ovldverif.Lemmas.C07ChainCore
/-!
# C07, whole chains — what a sequence of `call_next` calls that forward the call's own arguments visits

`C07_step` is about one `call_next`; this file composes it: a chain of methods each of which forwards the call's
own key `k` to `call_next` visits rank 0, rank 1, rank 2, ... of the resolution of `k`, in that order, and ends with
the ambiguity of the first tied rank or with "No method" below the last rank.  Consequences: no code object (hence
no method) is entered twice, the chain has at most one entry per rank, and priorities never go up along it.

`walk codeOf k n r` is the list of lookup results along the chain: it starts from the result `r` of the fresh
lookup; when the result is a handler `f` and `codeOf f = some c`, the next result is the lookup of the continuation
key `(some c, k)`.  (`codeOf f = none`: the handler has no code object and cannot call `call_next`.)
-/
set_option autoImplicit false
namespace Ovld

section
variable {K F E : Type} [DecidableEq K] (plan : K → Plan F E)

def walk (codeOf : F → Option Code) (k : K) : Nat → Res F E → List (Res F E)
  | 0, r => [r]
  | n + 1, .ok f =>
    .ok f :: (match codeOf f with
      | some c => walk codeOf k n (pureLookup plan (some c, k))
      | none => [])
  | _ + 1, r => [r]

/-- index of the first tied rank (a rank without a single handler / dispatcher), or the number of ranks -/
def firstTied (rs : List (Rank F E)) : Nat := rs.findIdx (fun r => r.func.isNone)

/-- the results a walk down all ranks is expected to see -/
def expectedWalk (rs : List (Rank F E)) : List (Res F E) :=
  (rs.take (firstTied rs)).map (fun r => resOfRank (some r)) ++ [resOfRank rs[firstTied rs]?]

/-! ### helper lemmas (any plan) -/

theorem walk_not_ok (codeOf : F → Option Code) (k : K) (n : Nat) (r : Res F E) (h : ∀ f, r ≠ .ok f) :
    walk plan codeOf k n r = [r] := by
  cases n with
  | zero => rfl
  | succ n =>
    cases r with
    | ok f => exact absurd rfl (h f)
    | amb e => rfl
    | noMethod => rfl
    | failed => rfl
    | keyError => rfl

theorem firstTied_le (rs : List (Rank F E)) : firstTied rs ≤ rs.length := List.findIdx_le_length

/-- the rank at `firstTied` (if any) has no callable -/
theorem resOfRank_firstTied (rs : List (Rank F E)) (f : F) : resOfRank rs[firstTied rs]? ≠ .ok f := by
  cases h : rs[firstTied rs]? with
  | none => intro e; cases e
  | some r =>
    obtain ⟨hlt, rfl⟩ := List.getElem?_eq_some_iff.mp h
    have hn : (rs[firstTied rs]).func.isNone = true :=
      List.findIdx_getElem (p := fun r : Rank F E => r.func.isNone) (xs := rs) (w := hlt)
    cases hf : (rs[firstTied rs]).func with
    | none => simp [resOfRank, hf]
    | some g => rw [hf] at hn; cases hn

theorem pureTop_eq_resOfRank (k : K) (hf : (plan k).fail = false) :
    pureTop plan k = resOfRank (plan k).ranks[0]? := by
  cases h : (plan k).ranks with
  | nil => rw [pureTop_nil plan k hf h]; rfl
  | cons r rs' =>
    cases hfn : r.func with
    | none => rw [pureTop_amb plan k hf r rs' h hfn]; simp [resOfRank, hfn]
    | some f => rw [pureTop_ok plan k hf r rs' h f hfn]; simp [resOfRank, hfn]

/-- the walk from rank `i` on, given that the continuation key of rank `i` resolves to rank `i + 1` -/
theorem walk_from (codeOf : F → Option Code) (k : K) (rs : List (Rank F E))
    (hstep : ∀ i r f c, i < firstTied rs → rs[i]? = some r → r.func = some f → codeOf f = some c →
      pureLookup plan (some c, k) = resOfRank rs[i + 1]?)
    (hr : ∀ j r, j < firstTied rs → rs[j]? = some r → ∃ f c, r.func = some f ∧ codeOf f = some c ∧ c ∈ r.codes) :
    ∀ n i, i ≤ firstTied rs → rs.length ≤ n + i →
      walk plan codeOf k n (resOfRank rs[i]?) =
        ((rs.take (firstTied rs)).drop i).map (fun r => resOfRank (some r)) ++ [resOfRank rs[firstTied rs]?] := by
  intro n
  induction n with
  | zero =>
    intro i hi hn
    have hle := firstTied_le rs
    have e : i = firstTied rs := by omega
    subst e
    rw [walk_not_ok plan codeOf k 0 _ (resOfRank_firstTied rs)]
    rw [List.drop_eq_nil_of_le (by rw [List.length_take]; omega)]
    rfl
  | succ n ih =>
    intro i hi hn
    have hle := firstTied_le rs
    by_cases e : i = firstTied rs
    · subst e
      rw [walk_not_ok plan codeOf k _ _ (resOfRank_firstTied rs)]
      rw [List.drop_eq_nil_of_le (by rw [List.length_take]; omega)]
      rfl
    · have hlt : i < firstTied rs := by omega
      have hil : i < rs.length := by omega
      have hri : rs[i]? = some rs[i] := List.getElem?_eq_getElem hil
      obtain ⟨f, c, hf, hc, _⟩ := hr i rs[i] hlt hri
      have hres : resOfRank (some rs[i]) = (Res.ok f : Res F E) := by simp [resOfRank, hf]
      have hdrop : (rs.take (firstTied rs)).drop i = rs[i] :: (rs.take (firstTied rs)).drop (i + 1) := by
        have hl : i < (rs.take (firstTied rs)).length := by rw [List.length_take]; omega
        rw [List.drop_eq_getElem_cons hl, List.getElem_take]
      rw [hri, hdrop, List.map_cons, List.cons_append, hres]
      simp only [walk, hc]
      rw [hstep i rs[i] f c hlt hri hf hc, ih (i + 1) (by omega) (by omega)]

/-- **whole chain, any plan**: when every rank above the first tied one is run by a handler whose code object is
    one of the rank's codes, a chain of `call_next` calls forwarding the call's own key sees the ranks in order,
    one at a time, then the ambiguity of the tied rank or "No method". -/
theorem walk_generic (ok : PlanOK plan) (codeOf : F → Option Code) (k : K)
    (hf : (plan k).fail = false)
    (hr : ∀ j r, j < firstTied (plan k).ranks → (plan k).ranks[j]? = some r →
      ∃ f c, r.func = some f ∧ codeOf f = some c ∧ c ∈ r.codes) :
    walk plan codeOf k (plan k).ranks.length (pureLookup plan (none, k)) = expectedWalk (plan k).ranks := by
  have hwf := walk_from plan codeOf k (plan k).ranks ?_ hr (plan k).ranks.length 0 (Nat.zero_le _) (Nat.le_refl _)
  · show walk plan codeOf k (plan k).ranks.length (pureTop plan k) = _
    rw [pureTop_eq_resOfRank plan k hf, hwf]
    rfl
  · intro i r f c hi hri hfi hci
    have hle := firstTied_le (plan k).ranks
    obtain ⟨f', c', hf', hc', hmem⟩ := hr i r hi hri
    rw [hfi] at hf'
    cases hf'
    rw [hci] at hc'
    cases hc'
    -- the top entry is a handler
    have h0 : (plan k).ranks[0]? = some (plan k).ranks[0] := List.getElem?_eq_getElem (by omega)
    obtain ⟨f0, _, hf0, _, _⟩ := hr 0 _ (by omega) h0
    have htop : pureTop plan k = .ok f0 := by
      rw [pureTop_eq_resOfRank plan k hf, h0]
      simp [resOfRank, hf0]
    show pureNext plan c k = _
    refine step_generic plan ok k c i r hri hmem f0 htop ?_ ?_
    · intro j hj r' hr'
      obtain ⟨g, _, hg, _, _⟩ := hr j r' (by omega) hr'
      rw [hg]; rfl
    · intro j hj r' hr'
      obtain ⟨_, c2, _, _, hm2⟩ := hr j r' (by omega) hr'
      cases hcs : r'.codes with
      | nil => rw [hcs] at hm2; cases hm2
      | cons a b => rfl

end

/-- the code object behind a table entry of a static rank -/
def entryCode (ms : List Meth) : Entry → Option Code
  | .meth id => codeOf ms id
  | _ => none

/-- every rank above the first tied one is a single method that has a code object -/
def chainOK (ms : List Meth) (rs : List (Rank Entry (List Nat))) : Bool :=
  (rs.take (firstTied rs)).all (fun r =>
    match r.func with
    | some (.meth id) => (codeOf ms id).isSome
    | _ => false)

/-- what `chainOK` says about a rank above the first tied one of a table's plan: a single method with a code object -/
theorem chain_rank (ms : List Meth) (gs : List (List Cand)) (hc : chainOK ms (mkRanks ms gs) = true)
    (j : Nat) (r : Rank Entry (List Nat)) (hj : j < firstTied (mkRanks ms gs)) (hr : (mkRanks ms gs)[j]? = some r) :
    ∃ id c cand, r.func = some (.meth id) ∧ codeOf ms id = some c ∧ r.codes = [c] ∧ r.err = [id] ∧
      gs[j]? = some [cand] ∧ cand.id = id := by
  have hmem : r ∈ (mkRanks ms gs).take (firstTied (mkRanks ms gs)) := by
    apply List.mem_of_getElem? (i := j)
    rw [List.getElem?_take, if_pos hj, hr]
  unfold chainOK at hc
  have h1 := List.all_eq_true.mp hc r hmem
  obtain ⟨g, hg, herr, hcodes, hfun⟩ := mkRanks_getElem? ms gs j r hr
  split at h1
  · rename_i id hf
    obtain ⟨c, hcode⟩ := Option.isSome_iff_exists.mp h1
    have hids := hfun id hf
    obtain ⟨cand, rfl, hcid⟩ := map_id_singleton g id hids
    refine ⟨id, c, cand, hf, hcode, ?_, ?_, hg, hcid⟩
    · rw [hcodes, hids]; simp [hcode]
    · rw [herr, hids]
  · cases h1

/-- **whole chain, the table**: static single-method ranks with code objects -/
theorem C07_chain (cfg : Cfg) (ms : List Meth) (hd : DistinctHandlers ms) (k : Key)
    (hf : (plan cfg ms k).fail = false) (hc : chainOK ms (plan cfg ms k).ranks = true) :
    walk (plan cfg ms) (entryCode ms) k (plan cfg ms k).ranks.length (pureLookup (plan cfg ms) (none, k))
      = expectedWalk (plan cfg ms k).ranks := by
  obtain ⟨cs, _, hrk⟩ := plan_ranks_of_ok cfg ms k hf
  apply walk_generic (plan cfg ms) (plan_ok cfg ms hd.ids hd.codes) (entryCode ms) k hf
  intro j r hj hr
  rw [hrk] at hc hj hr
  obtain ⟨id, c, _, hfn, hcode, hcodes, _, _, _⟩ := chain_rank ms _ hc j r hj hr
  exact ⟨.meth id, c, hfn, hcode, by rw [hcodes]; exact List.mem_singleton.mpr rfl⟩

/-- the method ids entered along a walk -/
def walkIds : List (Res Entry (List Nat)) → List Nat
  | [] => []
  | .ok (.meth id) :: rest => id :: walkIds rest
  | _ :: rest => walkIds rest

theorem walkIds_map (l : List (Rank Entry (List Nat))) (tail : List (Res Entry (List Nat)))
    (h : ∀ r ∈ l, ∃ id, r.func = some (.meth id) ∧ r.err = [id]) :
    walkIds (l.map (fun r => resOfRank (some r)) ++ tail) = l.flatMap (·.err) ++ walkIds tail := by
  induction l with
  | nil => rfl
  | cons r l ih =>
    obtain ⟨id, hf, he⟩ := h r List.mem_cons_self
    have hres : resOfRank (some r) = (Res.ok (Entry.meth id) : Res Entry (List Nat)) := by simp [resOfRank, hf]
    rw [List.map_cons, List.cons_append, hres, List.flatMap_cons, he]
    show id :: walkIds _ = _
    rw [ih (fun r' hr' => h r' (List.mem_cons_of_mem _ hr'))]
    rfl

theorem walkIds_expected (rs : List (Rank Entry (List Nat)))
    (h : ∀ r ∈ rs.take (firstTied rs), ∃ id, r.func = some (.meth id) ∧ r.err = [id]) :
    walkIds (expectedWalk rs) = (rs.take (firstTied rs)).flatMap (·.err) := by
  unfold expectedWalk
  rw [walkIds_map _ _ h]
  have hlast : walkIds [resOfRank rs[firstTied rs]?] = [] := by
    have hn := resOfRank_firstTied rs
    cases hres : resOfRank rs[firstTied rs]? with
    | ok f => exact absurd hres (hn f)
    | amb e => rfl
    | noMethod => rfl
    | failed => rfl
    | keyError => rfl
  rw [hlast, List.append_nil]

theorem chain_ranks_take (ms : List Meth) (gs : List (List Cand)) (hc : chainOK ms (mkRanks ms gs) = true) :
    ∀ r ∈ (mkRanks ms gs).take (firstTied (mkRanks ms gs)), ∃ id, r.func = some (.meth id) ∧ r.err = [id] := by
  intro r hr
  obtain ⟨j, hj⟩ := List.getElem?_of_mem hr
  rw [List.getElem?_take] at hj
  split at hj
  · rename_i hlt
    obtain ⟨id, _, _, hf, _, _, he, _, _⟩ := chain_rank ms gs hc j r hlt hj
    exact ⟨id, hf, he⟩
  · cases hj

/-- **never the same method twice along a whole chain** -/
theorem C07_chain_nodup (cfg : Cfg) (ms : List Meth) (hd : DistinctHandlers ms) (k : Key)
    (hf : (plan cfg ms k).fail = false) (hc : chainOK ms (plan cfg ms k).ranks = true) :
    (walkIds (walk (plan cfg ms) (entryCode ms) k (plan cfg ms k).ranks.length
      (pureLookup (plan cfg ms) (none, k)))).Nodup := by
  rw [C07_chain cfg ms hd k hf hc]
  obtain ⟨cs, hcs, hrk⟩ := plan_ranks_of_ok cfg ms k hf
  rw [hrk] at hc ⊢
  rw [walkIds_expected _ (chain_ranks_take ms _ hc)]
  have hall : ((mkRanks ms (ranks cs)).flatMap (·.err)).Nodup := by
    rw [List.flatMap_def, mkRanks_err_chain, ← List.map_flatten]
    exact (pull_spec _ _ [] (sortCands_ids_nodup cs (candidates_nodup cfg ms hd.ids k cs hcs))).1
  have hall' : (((mkRanks ms (ranks cs)).take (firstTied (mkRanks ms (ranks cs)))).flatMap (·.err) ++
      ((mkRanks ms (ranks cs)).drop (firstTied (mkRanks ms (ranks cs)))).flatMap (·.err)).Nodup := by
    rw [← List.flatMap_append, List.take_append_drop]
    exact hall
  exact (List.nodup_append.mp hall').1

/-- `l` is non-increasing -/
def antitone : List Int → Bool
  | a :: b :: rest => decide (a ≥ b) && antitone (b :: rest)
  | _ => true

theorem antitone_of_pairwise : ∀ l : List Int, l.Pairwise (· ≥ ·) → antitone l = true
  | [], _ => rfl
  | [_], _ => rfl
  | a :: b :: rest, h => by
    have h' := List.pairwise_cons.mp h
    rw [antitone, Bool.and_eq_true, decide_eq_true_eq]
    exact ⟨h'.1 b List.mem_cons_self, antitone_of_pairwise (b :: rest) h'.2⟩

/-- **priorities never go up along a whole chain** -/
theorem C07_chain_prio (cfg : Cfg) (ms : List Meth) (hd : DistinctHandlers ms) (k : Key)
    (hf : (plan cfg ms k).fail = false) (hc : chainOK ms (plan cfg ms k).ranks = true) :
    antitone ((walkIds (walk (plan cfg ms) (entryCode ms) k (plan cfg ms k).ranks.length
      (pureLookup (plan cfg ms) (none, k)))).map (fun id => (methOf ms id).prio)) = true := by
  rw [C07_chain cfg ms hd k hf hc]
  obtain ⟨cs, hcs, hrk⟩ := plan_ranks_of_ok cfg ms k hf
  rw [hrk] at hc ⊢
  rw [walkIds_expected _ (chain_ranks_take ms _ hc)]
  have hle : firstTied (mkRanks ms (ranks cs)) ≤ (mkRanks ms (ranks cs)).length := firstTied_le _
  have hsing : ∀ g ∈ (ranks cs).take (firstTied (mkRanks ms (ranks cs))), ∃ c, g = [c] := by
    intro g hg
    obtain ⟨j, hj⟩ := List.getElem?_of_mem hg
    rw [List.getElem?_take] at hj
    split at hj
    · rename_i hlt
      have hjl : j < (mkRanks ms (ranks cs)).length := by omega
      obtain ⟨_, _, cand, _, _, _, _, hg', _⟩ :=
        chain_rank ms (ranks cs) hc j _ hlt (List.getElem?_eq_getElem hjl)
      rw [hj] at hg'
      exact ⟨cand, Option.some.inj hg'⟩
    · cases hj
  generalize firstTied (mkRanks ms (ranks cs)) = t at hsing
  have hids : ((mkRanks ms (ranks cs)).take t).flatMap (·.err) = (((ranks cs).take t).flatten).map (·.id) := by
    rw [List.flatMap_def, List.map_take, mkRanks_err_chain, ← List.map_take, ← List.map_flatten]
  have hsub : (((ranks cs).take t).flatten).Sublist (sortCands cs) := by
    rw [flatten_eq_heads _ hsing]
    exact ((List.take_sublist t (ranks cs)).filterMap _).trans (pull_heads_sublist _ _ _)
  have hpw : (((ranks cs).take t).flatten).Pairwise (fun a b : Cand => keyGe a.key b.key = true) :=
    (sortCands_sorted cs).sublist hsub
  have hprio : ∀ c ∈ ((ranks cs).take t).flatten, (methOf ms c.id).prio = c.prio := by
    intro c hc'
    exact (candidates_prio cfg ms k cs hcs c ((sort_perm cs).mem_iff.mp (hsub.subset hc'))).symm
  rw [hids, List.map_map, List.map_congr_left (f := (fun id => (methOf ms id).prio) ∘ fun x : Cand => x.id)
    (g := fun c : Cand => c.prio) (fun c hc' => hprio c hc')]
  apply antitone_of_pairwise
  rw [List.pairwise_map]
  exact hpw.imp (fun h => keyGe_prio _ _ h)

/-- **a chain that reaches "No method" has entered every candidate rank**: when no rank is tied, the walk's ids are
    exactly the ids of all ranks, i.e. of all candidates of the key -/
theorem C07_chain_exhaustive (cfg : Cfg) (ms : List Meth) (hd : DistinctHandlers ms) (k : Key)
    (hf : (plan cfg ms k).fail = false) (hc : chainOK ms (plan cfg ms k).ranks = true)
    (hnt : firstTied (plan cfg ms k).ranks = (plan cfg ms k).ranks.length) :
    walkIds (walk (plan cfg ms) (entryCode ms) k (plan cfg ms k).ranks.length
      (pureLookup (plan cfg ms) (none, k))) = (plan cfg ms k).ranks.flatMap (·.err) := by
  rw [C07_chain cfg ms hd k hf hc]
  obtain ⟨cs, _, hrk⟩ := plan_ranks_of_ok cfg ms k hf
  rw [hrk] at hc hnt ⊢
  rw [walkIds_expected _ (chain_ranks_take ms _ hc), hnt, List.take_length]

end Ovld
