import itertools, collections
from typing import Literal
from ovld.types import Union, Intersection, Exactly, StrictSubclass, HasMethod, normalize_type
from ovld.dependent import Dependent, StartsWith
from ovld.mro import typeorder, subclasscheck, Order
class A: pass
class B(A): pass
class C:
    def foo(self): pass
class D(A, C): pass
base = {"A": A, "B": B, "C": C, "D": D, "object": object, "int": int}
T = dict(base)
for (n1, t1), (n2, t2) in itertools.permutations(list(base.items())[:4], 2):
    T[f"U[{n1},{n2}]"] = Union[t1, t2]; T[f"I[{n1},{n2}]"] = Intersection[t1, t2]
for n, t in list(base.items())[:4]:
    T[f"Ex[{n}]"] = Exactly[t]; T[f"SS[{n}]"] = StrictSubclass[t]; T[f"list[{n}]"] = list[t]; T[f"type[{n}]"] = type[t]
    T[f"Dep[{n},p]"] = Dependent[t, lambda x: True]; T[f"Dep[{n},q]"] = Dependent[t, lambda x: False]
T["HM[foo]"] = HasMethod["foo"]; T["list"] = list; T["type"] = type
T["L1"] = normalize_type(Literal[1], None); T["L12"] = normalize_type(Literal[1, 2], None); T["tuple[A,C]"] = normalize_type(tuple[A, C], None); T["tuple[B,C]"] = normalize_type(tuple[B, C], None)
T["U[A,Ex[C]]"] = Union[A, Exactly[C]]; T["I[A,HM]"] = Intersection[A, HasMethod["foo"]]; T["U[I[A,C],B]"] = Union[Intersection[A, C], B]
T["U[A,B,C]"] = Union[A, B, C]
def kind(n):
    return n.split("[")[0] if "[" in n else ("cls")
asym = collections.Counter(); tot = collections.Counter(); ex = {}
names = list(T)
for n1, n2 in itertools.combinations(names, 2):
    try:
        o12, o21 = typeorder(T[n1], T[n2]), typeorder(T[n2], T[n1])
    except Exception as e:
        asym[("EXC", kind(n1), kind(n2))] += 1; ex.setdefault(("EXC", kind(n1), kind(n2)), (n1, n2, repr(e)[:50])); continue
    k = tuple(sorted((kind(n1), kind(n2))))
    tot[k] += 1
    if o21 is not o12.opposite():
        asym[k] += 1; ex.setdefault(k, (n1, n2, o12.name, o21.name))
for n in names:
    if typeorder(T[n], T[n]) is not Order.SAME: print("not reflexive", n)
for k in sorted(asym, key=str): print(k, asym[k], "/", tot.get(k, "?"), ex[k])
print("pairs", sum(tot.values()), "asymmetric", sum(v for k, v in asym.items() if k[0] != "EXC"))
