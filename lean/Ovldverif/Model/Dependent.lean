import Ovldverif.Model.MultiMap
/-!
# Layer E: value-dependent dispatch (`recode.generate_dependent_dispatch`, `dependent.py` codegen)

Two readings of a value-dependent annotation are modelled side by side:

* `instOf`   — Python's `isinstance(value, T)`: bound **and** condition (`DependentType.__instancecheck__`),
  members of unions / intersections by their own `isinstance`;
* `evalToks (toks T)` — what the *generated* checking code evaluates: the templates of `codegen()` spliced
  together textually (`types.py` L323-329 / L374-380, `dependent.py` L27-59), i.e. **without** the bound of a
  dependent member of a union / intersection and **without** parentheses around nested combinators; evaluation
  follows Python's precedence (`and` binds tighter than `or`), left-to-right short-circuit, and exceptions.

`strategy` mirrors the choice between the three emitted bodies (table lookup on a key / first match /
counting), `dispatch` their behaviour.
User conditions and the built-in `FuncDependentType` checks are a parameter of the model (`DWorld.chk`).
-/
set_option autoImplicit false
namespace Ovld

inductive VKind | plain | seq | sized
deriving DecidableEq, Repr, Inhabited

/-- a run-time value: identity, class, equality class (Python `==` / `hash`), and — for `len()` / indexing —
    its elements (`seq`: tuple, list, str; `sized`: `len` works, integer indexing raises; `plain`: neither) -/
inductive DVal
  | mk (vid cls eq : Nat) (kind : VKind) (elems : List DVal)
deriving Inhabited

def DVal.vid : DVal → Nat | .mk v _ _ _ _ => v
def DVal.cls : DVal → Nat | .mk _ c _ _ _ => c
def DVal.eq : DVal → Nat | .mk _ _ e _ _ => e
def DVal.kind : DVal → VKind | .mk _ _ _ k _ => k
def DVal.elems : DVal → List DVal | .mk _ _ _ _ es => es

structure DWorld where
  H : Hier
  /-- tag of `type(c)` (the metaclass) for class `c` -/
  metaOf : Nat → Nat
  /-- `T.check(value)` of a `FuncDependentType` (user conditions and built-in value types) -/
  chk : Nat → List (Option Nat) → Nat → Tri

def Cfg.dworld (cfg : Cfg) : DWorld := { H := cfg.H, metaOf := cfg.metaOf, chk := cfg.chk }

section
variable (W : DWorld)

def DVal.size : DVal → Nat
  | .mk _ _ _ _ es => 1 + sizeList es
where sizeList : List DVal → Nat
  | [] => 0
  | v :: vs => v.size + sizeList vs

/-- `isinstance(v, T)`, with fuel `T.size + v.size` (raising is reported as `raises`) -/
def instOf : Nat → Ty → DVal → Tri
  | 0, _, _ => .raises
  | f + 1, t, v =>
    match t with
    | .cls c => Tri.ofBool (W.H.sub v.cls c)
    | .gen .. => .raises                      -- isinstance() argument 2 cannot be a parameterized generic
    | .union ts => anyTri (ts.map (fun t' => instOf f t' v))
    | .inter ts => allTri (ts.map (fun t' => instOf f t' v))
    | .exactly _ c => Tri.ofBool (v.cls == c)
    | .strict _ c => Tri.ofBool (W.H.sub v.cls c && v.cls != c)
    | .hasm _ m => Tri.ofBool (W.H.hasAttr v.cls m)
    | .pred _ k => Tri.ofBool (W.H.pred k v.cls)
    | .lit keys b =>
      match instOf f b v with
      | .yes => Tri.ofBool (keys.contains v.eq)
      | r => r
    | .prod ps b =>
      match instOf f b v with
      | .yes =>
        -- ProductType.check: isinstance(value, tuple) and len(value) == n and all(isinstance(x, t))
        if v.kind != .seq then .no
        else if v.elems.length != ps.length then .no
        else allTri ((ps.zip v.elems).map (fun p => instOf f p.1 p.2))
      | r => r
    | .fdep fn ps b =>
      match instOf f b v with
      | .yes => W.chk fn ps v.vid
      | r => r
where
  /-- Python `any(...)` / `or`: left to right, stops at the first true, propagates an exception met before -/
  anyTri : List Tri → Tri
    | [] => .no
    | .yes :: _ => .yes
    | .raises :: _ => .raises
    | .no :: r => anyTri r
  allTri : List Tri → Tri
    | [] => .yes
    | .no :: _ => .no
    | .raises :: _ => .raises
    | .yes :: r => allTri r

def isinstanceOf (t : Ty) (v : DVal) : Tri := instOf W (t.size + v.size + 1) t v

/-- atoms of the generated checking expression -/
inductive CAtom
  | eqLit (keys : List Nat)                   -- `(arg == p)` / `(arg in ps)`
  | lenEq (n : Nat)                           -- `len(arg) == n`
  | elemInst (i : Nat) (t : Ty)               -- `isinstance(arg[i], t)`
  | userChk (fn : Nat) (ps : List (Option Nat))   -- `T.check(arg)` (also `bool(rx.search(arg))`)
  | inst (t : Ty)                             -- `isinstance(arg, t)` for a type without `codegen`
  | member (t : Ty)                           -- `( <guarded checking code of a Union / Intersection member> )`

inductive Tok | atom (a : CAtom) | or | and

def joinToks (sep : Tok) : List (List Tok) → List Tok
  | [] => []
  | [x] => x
  | x :: rest => x ++ [sep] ++ joinToks sep rest

/-- `generate_checking_code(T).template`, as a token sequence -/
def toks : Nat → Ty → List Tok
  | 0, t => [.atom (.inst t)]
  | f + 1, t =>
    match t with
    | .lit keys _ => [.atom (.eqLit keys)]
    | .prod ps _ =>
      joinToks .and ([[Tok.atom (.lenEq ps.length)]] ++ (ps.zipIdx.map (fun (p, i) => [Tok.atom (.elemInst i p)])))
    | .fdep fn ps _ => [.atom (.userChk fn ps)]
    | .union ts => joinToks .or (ts.map (fun m => [Tok.atom (.member m)]))
    | .inter ts => joinToks .and (ts.map (fun m => [Tok.atom (.member m)]))
    | t => [.atom (.inst t)]

/-- Python `and` of two already evaluated operands is not what we want (short-circuit): `andThen a b` evaluates
    `b` only when `a` is true -/
def Tri.andThen (a : Tri) (b : Unit → Tri) : Tri :=
  match a with
  | .yes => b ()
  | x => x

/-- `generate_guarded_checking_code(t)` evaluated on `v`, as one parenthesised unit (types.py L323-329 / L374-380,
    dependent.py `generate_guarded_checking_code`): a value-dependent member is guarded by its bound (unless the
    bound is `object`); `wholeCheck` is `generate_checking_code(t)` evaluated as a whole -/
def memberCheck : Nat → Ty → DVal → Tri
  | 0, _, _ => .raises
  | f + 1, t, v =>
    let whole : Ty → Tri := fun t =>
      match t with
      | .lit keys _ => Tri.ofBool (keys.contains v.eq)
      | .prod ps _ =>
        if v.kind == .plain then .raises
        else if v.elems.length != ps.length then .no
        else if v.kind != .seq then (if ps.isEmpty then .yes else .raises)
        else instOf.allTri ((ps.zip v.elems).map (fun p => isinstanceOfAux p.1 p.2))
      | .fdep fn ps _ => W.chk fn ps v.vid
      | .union ms => instOf.anyTri (ms.map (fun m => memberCheck f m v))
      | .inter ms => instOf.allTri (ms.map (fun m => memberCheck f m v))
      | .gen .. => Tri.ofBool (subclasscheck W.H (.cls v.cls) t)
      | t => isinstanceOfAux t v
    match t with
    | .lit _ b | .prod _ b | .fdep _ _ b =>
      if b == .cls 0 then whole t
      else Tri.andThen (whole b) (fun _ => whole t)
    | t => whole t
where isinstanceOfAux (t : Ty) (v : DVal) : Tri := instOf W (t.size + v.size + 1) t v

def evalAtom (a : CAtom) (v : DVal) : Tri :=
  match a with
  | .member t => memberCheck W (t.size + 1) t v
  | .eqLit keys => Tri.ofBool (keys.contains v.eq)
  | .lenEq n => if v.kind == .plain then .raises else Tri.ofBool (v.elems.length == n)
  | .elemInst i t =>
    if v.kind != .seq then .raises
    else match v.elems[i]? with
      | some e => isinstanceOf W t e
      | none => .raises
  | .userChk fn ps => W.chk fn ps v.vid
  | .inst t => isinstanceOf W t v

/-- a token of the emitted expression with the argument it is applied to -/
inductive TokV | atom (a : CAtom) (v : DVal) | or | and

def withArg (v : DVal) : List Tok → List TokV
  | [] => []
  | .atom a :: r => .atom a v :: withArg v r
  | .or :: r => .or :: withArg v r
  | .and :: r => .and :: withArg v r

def joinToksV (sep : TokV) : List (List TokV) → List TokV
  | [] => []
  | [x] => x
  | x :: rest => x ++ [sep] ++ joinToksV sep rest

/-- split at the top-level `or`s, then evaluate each `and`-chain: Python's precedence and short-circuit -/
def splitOr : List TokV → List (List (CAtom × DVal))
  | [] => [[]]
  | .or :: r => [] :: splitOr r
  | .and :: r => splitOr r
  | .atom a v :: r =>
    match splitOr r with
    | g :: gs => ((a, v) :: g) :: gs
    | [] => [[(a, v)]]

def evalAnd : List (CAtom × DVal) → Tri
  | [] => .yes
  | (a, v) :: r =>
    match evalAtom W a v with
    | .yes => evalAnd r
    | x => x

def evalOr : List (List (CAtom × DVal)) → Tri
  | [] => .no
  | g :: r =>
    match evalAnd W g with
    | .no => evalOr r
    | x => x

/-- the generated check for a declared type on a value -/
def genCheck (t : Ty) (v : DVal) : Tri := evalOr W (splitOr (withArg v (toks (t.size + 1) t)))

/-- tag of `type(T)` for a type object `T` (`possibilities = set(type(t) for t in featured)`) -/
def pyKind : Ty → Nat
  | .cls c => 10 + W.metaOf c
  | .gen .. => 1
  | .union _ | .inter _ | .exactly .. | .strict .. | .hasm .. | .pred .. => 2     -- MetaMC
  | .lit .. => 3                                                                   -- Equals
  | .prod .. => 4
  | .fdep fn _ _ => 1000 + fn

inductive Strategy
  | keyed (slot : Slot) (table : List (Nat × Nat))    -- eq-key ↦ handler, in dict order
  | firstMatch
  | counting
deriving Repr

/-- a handler of the rank: its id and its declared type per slot of the key -/
abbrev DHandler := Nat × List (Slot × Ty)

def dTyAt (h : DHandler) (s : Slot) : Ty :=
  match h.2.find? (fun p => p.1 == s) with
  | some p => p.2
  | none => .cls 0

def dedupTys (ts : List Ty) : List Ty :=
  ts.foldl (fun acc t => if acc.contains t then acc else acc ++ [t]) []

def dedupNats (ts : List Nat) : List Nat :=
  ts.foldl (fun acc t => if acc.contains t then acc else acc ++ [t]) []

/-- dict update semantics: a later value for an equal key replaces the value, the key keeps its place -/
def dictSet (d : List (Nat × Nat)) (k v : Nat) : List (Nat × Nat) :=
  if d.any (fun e => e.1 == k) then d.map (fun e => if e.1 == k then (k, v) else e) else d ++ [(k, v)]

structure StratState where
  exclusive : Bool := false
  keySlot : Option Slot := none
  keyed : List (Nat × Nat) := []

/-- recode.py L199-226: the loop over the slots of the key -/
def stratSlots (hs : List DHandler) : List Slot → StratState → StratState
  | [], st => st
  | s :: rest, st =>
    let featured := dedupTys (hs.map (fun h => dTyAt h s))
    let st' :=
      if featured.length == hs.length then
        match dedupNats (featured.map (pyKind W)) with
        | [kind] =>
          if kind == 3 then
            -- keyable: every value of each Literal is a key (`get_keys()`); a key shared by two handlers
            -- (equal values, 1 == True) disables both shortcuts
            let keysOf (h : DHandler) : List Nat := match dTyAt h s with | .lit ks _ => dedupNats ks | _ => []
            let keyed := hs.foldl (fun d h => (keysOf h).foldl (fun d k => dictSet d k h.1) d) []
            let total := (hs.map (fun h => (keysOf h).length)).foldl (· + ·) 0
            if keyed.length != total then
              { st with exclusive := false, keySlot := none, keyed := [] }
            else if featured.length < 4 then
              { st with exclusive := true, keySlot := none, keyed := keyed }
            else { st with keySlot := some s, keyed := keyed }
          else { st with exclusive := false }
        | _ => st
      else st
    stratSlots hs rest st'

def relevantSlots (k : List Slot) (h : DHandler) : List Slot := k.filter (fun s => (dTyAt h s).isDep)

def strategy (k : List Slot) (hs : List DHandler) : Strategy :=
  let st := stratSlots W hs k {}
  let multi := hs.any (fun h => (relevantSlots k h).length > 1)
  let keySlot := if multi then none else st.keySlot
  let exclusive := if hs.length == 1 then true else st.exclusive
  match keySlot with
  | some s => .keyed s st.keyed
  | none => if exclusive then .firstMatch else .counting

/-- equality classes from here on stand for unhashable values (each its own class) -/
def unhashableFrom : Nat := 500000

inductive DRes
  | handler (id : Nat)
  | fallthrough
  | ambiguous
  | raised
deriving DecidableEq, Repr

def argAt (args : List (Slot × DVal)) (s : Slot) : Option DVal :=
  (args.find? (fun p => p.1 == s)).map (·.2)

/-- the conjunction emitted for one handler (L228-238): each relevant argument's condition, parenthesised,
    joined by `and` (left to right, short-circuit) -/
def conjGo (W : DWorld) (args : List (Slot × DVal)) (h : DHandler) : List Slot → Tri
  | [] => .yes
  | s :: r =>
    match argAt args s with
    | none => .raises
    | some v =>
      match genCheck W (dTyAt h s) v with
      | .yes => conjGo W args h r
      | x => x

def conj (args : List (Slot × DVal)) (k : List Slot) (h : DHandler) : Tri :=
  conjGo W args h (relevantSlots k h)

/-- behaviour of the emitted `__DEPENDENT_DISPATCH__` (L246-268) -/
def dispatch (k : List Slot) (hs : List DHandler) (args : List (Slot × DVal)) : DRes :=
  match strategy W k hs with
  | .keyed s table =>
    match argAt args s with
    | none => .raised
    | some v =>
      -- `dict.get(arg)` hashes the argument: for an unhashable value (list, dict) the TypeError is caught and
      -- the dispatcher falls through (since the `fix:` for finding D32)
      if v.eq ≥ unhashableFrom then .fallthrough else
      match table.find? (fun e => e.1 == v.eq) with
      | some e => .handler e.2
      | none => .fallthrough
  | .firstMatch =>
    let rec go : List DHandler → DRes
      | [] => .fallthrough
      | h :: r =>
        match conj W args k h with
        | .yes => .handler h.1
        | .no => go r
        | .raises => .raised
    go hs
  | .counting =>
    let rs := hs.map (fun h => (h.1, conj W args k h))
    if rs.any (fun p => p.2 == .raises) then
      -- the MATCHi assignments are evaluated in order; the first exception propagates
      .raised
    else
      match rs.filter (fun p => p.2 == .yes) with
      | [] => .fallthrough
      | [p] => .handler p.1
      | _ => .ambiguous

end
end Ovld
