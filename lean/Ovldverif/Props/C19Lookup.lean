import Ovldverif.Model.ConcLookup
import Ovldverif.Spec.CacheSpec
import Ovldverif.Lemmas.CacheInv
import Ovldverif.Lemmas.ConcCore
/-!
# C19 (table level): concurrent lookups on the shared caches are linearizable

Any number of threads, each executing one lookup (`Model/ConcLookup.lean`: one dict access per step), under
EVERY schedule, starting from any state satisfying the cache invariant `CInv`:

* `C19_lookups_linearizable` — a thread that has finished holds `pureLookup plan req`, the answer of a lone
  lookup on a fresh table (so any order of the finished lookups is a valid linearization);
* `C19_lookups_state_always` — `CInv` holds after every single step (the publication order of `ws`, the entry
  of the looked-up key last, makes the fault-tolerant invariant an interleaving invariant);
* `C19_lookups_state` — in particular at quiescence, so by `lookup_spec` every later lookup is correct
  (`C19_lookups_then_sequential`);
* `C19_single_thread` — a thread running alone computes exactly `lookup` (result and state): the step model
  follows the sequential code path.
-/
set_option autoImplicit false
set_option linter.unusedSectionVars false
namespace Ovld.ConcLookup
open Ovld

section
variable {K F E : Type} [DecidableEq K] (plan : K → Plan F E)

/-- the global invariant, one program counter per request, every thread's local invariant -/
def SysInv (reqs : List (CKey K)) (s : Sys K F E) : Prop :=
  CInv plan s.st ∧ s.pcs.length = reqs.length ∧
    ∀ i (_ : i < s.pcs.length) (_ : i < reqs.length), L plan s.st reqs[i] s.pcs[i]

theorem inv_init (st0 : St K F E) (h0 : CInv plan st0) (reqs : List (CKey K)) :
    SysInv plan reqs (Sys.init st0 reqs) := by
  refine ⟨h0, by simp [Sys.init], ?_⟩
  intro i h h'
  simp only [Sys.init, List.getElem_map]
  exact L_start plan _ _

theorem inv_step (ok : PlanOK plan) (reqs : List (CKey K)) (s : Sys K F E) (i : Nat) (h : SysInv plan reqs s) :
    SysInv plan reqs (s.stepThread plan i) := by
  obtain ⟨g, hlen, hl⟩ := h
  unfold Sys.stepThread
  cases hi : s.pcs[i]? with
  | none => exact ⟨g, hlen, hl⟩
  | some pc =>
    have hib : i < s.pcs.length := by
      cases Nat.lt_or_ge i s.pcs.length with
      | inl h => exact h
      | inr h => rw [List.getElem?_eq_none h] at hi; cases hi
    have hpc : s.pcs[i] = pc := by rw [List.getElem?_eq_getElem hib] at hi; exact Option.some.inj hi
    have hir : i < reqs.length := by omega
    obtain ⟨hx, hg, hL⟩ := step_ok plan ok s.st reqs[i] pc g (hpc ▸ hl i hib hir)
    refine ⟨hg, by simp [hlen], ?_⟩
    intro j hj hj'
    simp only [List.length_set] at hj
    by_cases e : j = i
    · subst e; simp only [List.getElem_set_self]; exact hL
    · have : (s.pcs.set i (step plan s.st pc).2)[j] = s.pcs[j] := by
        rw [List.getElem_set_ne (by omega)]
      rw [this]
      exact L.stable plan hx _ (hl j hj hj')

theorem inv_run (ok : PlanOK plan) (reqs : List (CKey K)) : ∀ (sched : List Nat) (s : Sys K F E),
    SysInv plan reqs s → SysInv plan reqs (s.run plan sched)
  | [], _, h => h
  | i :: rest, s, h => inv_run ok reqs rest _ (inv_step plan ok reqs s i h)

/-- C19 (lookup level): whatever the schedule and the number of threads, a thread that has finished holds the
    answer a lone lookup gives on a fresh table -/
theorem C19_lookups_linearizable (ok : PlanOK plan) (st0 : St K F E) (h0 : CInv plan st0)
    (reqs : List (CKey K)) (sched : List Nat) (i : Nat) (r : Res F E) (hi : i < reqs.length)
    (hdone : ((Sys.init st0 reqs).run plan sched).pcs[i]? = some (.done r)) :
    r = pureLookup plan reqs[i] := by
  obtain ⟨_, hlen, hl⟩ := inv_run plan ok reqs sched _ (inv_init plan st0 h0 reqs)
  have hib : i < ((Sys.init st0 reqs).run plan sched).pcs.length := by omega
  have := hl i hib hi
  rw [List.getElem?_eq_getElem hib] at hdone
  rw [Option.some.inj hdone] at this
  exact this

/-- the cache invariant holds after EVERY step of every schedule, whether or not the threads have finished -/
theorem C19_lookups_state_always (ok : PlanOK plan) (st0 : St K F E) (h0 : CInv plan st0)
    (reqs : List (CKey K)) (sched : List Nat) : CInv plan ((Sys.init st0 reqs).run plan sched).st :=
  (inv_run plan ok reqs sched _ (inv_init plan st0 h0 reqs)).1

/-- at quiescence the shared state satisfies the cache invariant -/
theorem C19_lookups_state (ok : PlanOK plan) (st0 : St K F E) (h0 : CInv plan st0)
    (reqs : List (CKey K)) (sched : List Nat)
    (_hall : ∀ pc ∈ ((Sys.init st0 reqs).run plan sched).pcs, ∃ r, pc = .done r) :
    CInv plan ((Sys.init st0 reqs).run plan sched).st :=
  C19_lookups_state_always plan ok st0 h0 reqs sched

/-- hence every sequential lookup after any concurrent phase returns the pure answer -/
theorem C19_lookups_then_sequential (ok : PlanOK plan) (st0 : St K F E) (h0 : CInv plan st0)
    (reqs : List (CKey K)) (sched : List Nat) (ck : CKey K) :
    (lookup plan ((Sys.init st0 reqs).run plan sched).st ck).2 = pureLookup plan ck :=
  (lookup_spec plan ok _ ck (C19_lookups_state_always plan ok st0 h0 reqs sched)).1

/-- the number of threads never changes: thread `i` exists in the final system -/
theorem C19_threads (ok : PlanOK plan) (st0 : St K F E) (h0 : CInv plan st0)
    (reqs : List (CKey K)) (sched : List Nat) :
    ((Sys.init st0 reqs).run plan sched).pcs.length = reqs.length :=
  (inv_run plan ok reqs sched _ (inv_init plan st0 h0 reqs)).2.1

/-- sequential consistency of the step model: one thread scheduled alone, long enough, ends in exactly the state
    and with exactly the result of `lookup` (no invariant needed) -/
theorem C19_single_thread (st : St K F E) (ck : CKey K) :
    ∃ n, (Sys.init st [ck]).run plan (List.replicate n 0) =
      ⟨(lookup plan st ck).1, [.done (lookup plan st ck).2]⟩ := by
  obtain ⟨n, hn⟩ := reach_lookup plan st ck
  refine ⟨n, ?_⟩
  show (Sys.mk st [startPC ck]).run plan (List.replicate n 0) = _
  rw [run_single, hn]

end

/-! ## non-vacuity: a concrete plan, two threads, an interleaved schedule

Key `0` has two ranks: handler `10` (code object `5`) and below it handler `11` (code object `6`), so a
resolution publishes `cache[(5, 0)] = 11` first and `cache[(none, 0)] = 10` last.  Thread 0 looks up the
ordinary key `(none, 0)`, thread 1 the continuation key `(some 5, 0)`; both miss and both resolve, their dict
writes interleaved. -/

def exPlan : Nat → Plan Nat Nat := fun k =>
  if k = 0 then
    { ranks := [{ func := some 10, codes := [5], err := 100 }, { func := some 11, codes := [6], err := 101 }],
      allCodes := [5, 6] }
  else { ranks := [], allCodes := [] }

def exSched : List Nat := [1, 0, 1, 0, 0, 1, 1, 0, 1, 0, 1, 0, 0, 1, 1, 1, 1, 1]

def exRun : Sys Nat Nat Nat :=
  (Sys.init (St.empty : St Nat Nat Nat) [(none, 0), (some 5, 0)]).run exPlan exSched

/-- both threads finish, with the pure answers; the state is the fully resolved one -/
example : exRun.pcs.map PC.result = [some (.ok 10), some (.ok 11)] ∧
    pureLookup exPlan (none, 0) = .ok 10 ∧ pureLookup exPlan (some 5, 0) = .ok 11 ∧
    exRun.st.cache (none, 0) = some 10 ∧ exRun.st.cache (some 5, 0) = some 11 ∧
    exRun.st.all 0 = some [5, 6] := by decide

/-- one step earlier thread 1 has not finished: the schedule really is an interleaving of unfinished threads,
    and thread 1 did take the miss path (its own resolution wrote twice: four cache writes in all) -/
example : ((Sys.init (St.empty : St Nat Nat Nat) [(none, 0), (some 5, 0)]).run exPlan
      (exSched.take 17)).pcs.map PC.result = [some (.ok 10), none] ∧
    exRun.st.cacheKeys = [(none, 0), (none, 0), (some 5, 0), (some 5, 0)] ∧ exRun.st.allKeys = [0, 0] := by
  decide

/-- the hypotheses of the theorems hold for the example -/
example : PlanOK exPlan where
  codes_nodup := by
    intro k
    by_cases h : k = 0
    · subst h; decide
    · simp [exPlan, h, rankCodes]
  codes_sub := by
    intro k
    by_cases h : k = 0
    · subst h; decide
    · simp [exPlan, h, rankCodes]

end Ovld.ConcLookup
