"""Type-directed generator of type descriptors over a World (the closure C12/C13 quantify over)."""

import random

from world import C_BOOL, C_DICT, C_INT, C_LIST, C_NONE, C_OBJECT, C_STR, C_TUPLE, C_TYPE, NATTR, NBUILTIN, NPRED, VALUE_POOL, World

VAL_CLASS = {int: C_INT, bool: C_BOOL, str: C_STR, type(None): C_NONE, tuple: C_TUPLE, list: C_LIST, dict: C_DICT}


class TypeGen:
    def __init__(self, w: World, rng: random.Random, kinds=None):
        self.w = w
        self.rng = rng
        self.tag = 0
        self.user = list(range(NBUILTIN, w.n))
        self.npred = NPRED + len(getattr(w, "deferred", []))
        self.generic_user = [NBUILTIN + i for i, u in enumerate(w.desc["user"]) if u["kind"] == "generic"]
        self.kinds = kinds or ["cls", "gen", "type", "union", "inter", "exactly", "strict", "hasm", "pred", "lit", "prod", "fdep"]
        self.exact_memo = {}

    def newtag(self):
        self.tag += 1
        return self.tag

    def cls(self):
        r = self.rng.random()
        if r < 0.75 and self.user:
            return ["cls", self.rng.choice(self.user)]
        return ["cls", self.rng.choice([C_OBJECT, C_INT, C_BOOL, C_STR, C_TUPLE, C_LIST, C_DICT, C_TYPE])]

    def usercls(self):
        if self.user:
            return self.rng.choice(self.user)
        return C_INT

    def gen(self, depth):
        rng = self.rng
        kind = rng.choice(self.kinds)
        if depth <= 0 or kind == "cls":
            return self.cls()
        sub = lambda: self.gen(depth - 1)
        if kind == "gen":
            o = rng.choice([C_LIST, C_DICT, C_TUPLE] + self.generic_user * 2)
            if o == C_DICT:
                return ["gen", o, [sub(), sub()]]
            if o == C_TUPLE:
                # the one origin whose aliases come with different numbers of arguments
                return ["gen", o, [sub() for _ in range(rng.choice([1, 2, 2, 3]))]]
            return ["gen", o, [sub()]]
        if kind == "type":
            return ["gen", C_TYPE, [sub()]]
        if kind in ("union", "inter"):
            k = rng.choice([2, 2, 3])
            return [kind, [sub() for _ in range(k)]]
        if kind in ("exactly", "strict"):
            c = self.usercls()
            # the same Exactly[...] object is shared with probability 1/2 (identity equality, D22)
            key = (kind, c)
            if key in self.exact_memo and rng.random() < 0.5:
                return self.exact_memo[key]
            d = [kind, self.newtag(), c]
            self.exact_memo[key] = d
            return d
        if kind == "hasm":
            m = rng.randrange(NATTR)
            key = (kind, m)
            if key in self.exact_memo and rng.random() < 0.5:
                return self.exact_memo[key]
            d = ["hasm", self.newtag(), m]
            self.exact_memo[key] = d
            return d
        if kind == "pred":
            k = rng.randrange(self.npred) if rng.random() < 0.6 else rng.randrange(NPRED, self.npred) if self.npred > NPRED else rng.randrange(NPRED)
            key = (kind, k)
            # a Deferred[...] type is one object per reference (identity equality): always the same tag
            if key in self.exact_memo and (k >= NPRED or rng.random() < 0.5):
                return self.exact_memo[key]
            d = ["pred", self.newtag(), k]
            self.exact_memo[key] = d
            return d
        if kind == "lit":
            n = rng.choice([1, 1, 2, 3])
            vals = [rng.randrange(len(VALUE_POOL)) for _ in range(n)]
            vals = [v for v in vals if type(VALUE_POOL[v]) not in (list, dict)] or [0]
            b = ["cls", VAL_CLASS[type(VALUE_POOL[vals[0]])]]
            if rng.random() < 0.2:
                b = self.cls()
            return ["lit", vals, b]
        if kind == "prod":
            k = rng.choice([0, 1, 2, 2, 3])  # tuple[()] included: the empty product
            return ["prod", [sub() for _ in range(k)], ["cls", C_TUPLE]]
        if kind == "fdep":
            fn = rng.randrange(3)
            np_ = rng.choice([0, 1, 2, 2])
            ps = [None if rng.random() < 0.3 else rng.randrange(3) for _ in range(np_)]
            b = self.cls() if rng.random() < 0.8 else sub()
            return ["fdep", fn, ps, b]
        return self.cls()
