import Ovldverif.Model.Graph
import Ovldverif.Lemmas.FnInv
import Ovldverif.Lemmas.GraphBasic
import Ovldverif.Lemmas.GraphOps
/-!
# C16 — variants and mixins compose without ever disturbing their parents

`Graph` (Model/Graph.lean) is the model of the graph of `Ovld` objects after the `fix:` commits for findings
D13 (transitive locking of every ancestor reached through an unlinked edge) and D14 (`add_mixins` rebuilds).
-/
set_option autoImplicit false
namespace Ovld

/-- is `a` an ancestor of `n` (reachable by following `mixins` upwards), with fuel -/
def Graph.derives (g : Graph) : Nat → Nat → Nat → Bool
  | 0, _, _ => false
  | f + 1, a, n => (g.get n).mixins.any (fun m => m == a || g.derives f a m)

def Graph.isAnc (g : Graph) (a n : Nat) : Bool := g.derives g.depth a n

/-- the operation is well-formed on `g`: node indices exist, mixing in never creates a cycle -/
def Graph.opOK (g : Graph) : GOp → Bool
  | .create ms _ => ms.all (fun m => m < g.nodes.length)
  | .addMixins n ms => n < g.nodes.length && ms.all (fun m => m < g.nodes.length && m != n && !g.isAnc n m)
  | .register n _ => n < g.nodes.length
  | .unregister n _ => n < g.nodes.length
  | .call n _ => n < g.nodes.length

/-- every operation of the sequence is well-formed where it is applied, and no build fails with a
    configuration error (inconsistent argument names are C18's subject) -/
def Graph.opsOK (cfg : Cfg) : Graph → List GOp → Bool
  | _, [] => true
  | g, op :: rest =>
    g.opOK op && (g.step cfg op).2 != some .configError && Graph.opsOK cfg (g.step cfg op).1 rest

/-- the table in service of every function that has been put to use was built from exactly the definitions
    that function has now: its ancestors' overlaid by its own -/
def Graph.Consistent (g : Graph) : Prop :=
  ∀ n, n < g.nodes.length → (g.get n).compiled = true → (g.get n).built = g.defns g.depth n

theorem Graph.derives_eq (g : Graph) (f a n : Nat) : g.derives f a n = ancB g.mx f a n := by
  induction f generalizing n with
  | zero => rfl
  | succ f ih =>
    show (g.get n).mixins.any _ = (g.get n).mixins.any _
    congr 1; funext m; rw [ih]

/-- on a graph satisfying the invariant the fuel of `isAnc` is adequate -/
theorem Graph.isAnc_iff {g : Graph} (hi : Inv g) (a n : Nat) : g.isAnc a n = true ↔ Anc g.mx a n := by
  obtain ⟨ord, ht⟩ := hi.topo
  unfold Graph.isAnc
  rw [Graph.derives_eq]
  exact ancB_iff ht.ranked a n

/-- every well-formed operation that does not fail with a configuration error preserves the invariant -/
theorem Graph.inv_step (cfg : Cfg) {g : Graph} (hi : Inv g) (op : GOp) (hok : g.opOK op = true)
    (hne : ((g.step cfg op).2 != some .configError) = true) : Inv (g.step cfg op).1 := by
  have hne' : (g.step cfg op).2 ≠ some .configError := by simpa using hne
  cases op with
  | create ms lb =>
    simp only [Graph.opOK, List.all_eq_true, decide_eq_true_eq] at hok
    exact hi.create ms lb hok
  | addMixins n ms =>
    simp only [Graph.opOK, Bool.and_eq_true, List.all_eq_true, decide_eq_true_eq, bne_iff_ne, ne_eq,
      Bool.not_eq_true'] at hok
    refine hi.addMixins n hok.1 ms (fun m hm => ⟨(hok.2 m hm).1.1, (hok.2 m hm).1.2, ?_⟩) hne'
    intro hanc
    have := (Graph.isAnc_iff hi n m).mpr hanc
    rw [(hok.2 m hm).2] at this
    cases this
  | register n d =>
    simp only [Graph.opOK, decide_eq_true_eq] at hok
    exact hi.register n hok d hne'
  | unregister n id =>
    simp only [Graph.opOK, decide_eq_true_eq] at hok
    exact hi.unregister n hok id hne'
  | call n c =>
    simp only [Graph.opOK, decide_eq_true_eq] at hok
    refine hi.call cfg n hok c (fun hh => hne' ?_)
    show some (g.call cfg n c).2.1 = some .configError
    rw [hh]

theorem Graph.inv_runOps (cfg : Cfg) (ops : List GOp) : ∀ (g : Graph), Inv g → Graph.opsOK cfg g ops = true →
    Inv (Graph.runOps cfg g ops) := by
  induction ops with
  | nil => intro g hi _; exact hi
  | cons op rest ih =>
    intro g hi hok
    simp only [Graph.opsOK, Bool.and_eq_true] at hok
    exact ih _ (Graph.inv_step cfg hi op hok.1.1 hok.1.2) hok.2

/-- **C16, main invariant**: after ANY sequence of create / copy / variant / add_mixins / register /
    unregister / call operations, with and without linkback, every function in use reflects the current
    definitions of everything it derives from: a modification of an ancestor was either refused ("locked") or
    has been propagated -/
theorem C16_consistent (cfg : Cfg) (ops : List GOp) (hok : Graph.opsOK cfg {} ops = true) :
    (Graph.runOps cfg {} ops).Consistent := by
  have hi := Graph.inv_runOps cfg ops {} Inv.empty hok
  intro n _ hc
  exact hi.cons n hc

set_option linter.unusedVariables false in
/-- **isolation**: an accepted registration on `n` changes the definitions of `n` and of the functions that
    derive from `n` only: parents, siblings and unrelated functions keep theirs -/
theorem C16_isolation_register (g : Graph) (n : Nat) (d : Def) (m : Nat)
    (hn : n < g.nodes.length) (hm : m ≠ n) (hnot : g.isAnc n m = false) :
    (g.register n d).1.defns (g.register n d).1.depth m = g.defns g.depth m := by
  cases hl : (g.get n).locked with
  | true => simp [Graph.register, hl]
  | false =>
    rw [Graph.register_eq g n d hl]
    have h2 : ancB g.mx g.depth n m = false := by rw [← Graph.derives_eq]; exact hnot
    exact Graph.isolation_setOwn g n _ m _ hm h2

/-- a locked function refuses every modification -/
theorem C16_locked_refuses (g : Graph) (n : Nat) (d : Def) (h : (g.get n).locked = true) :
    g.register n d = (g, some .locked) ∧ g.unregister n d.d.id = (g, some .locked) ∧
    ∀ ms, g.addMixins n ms = (g, some .locked) := by
  refine ⟨?_, ?_, fun ms => ?_⟩
  · simp [Graph.register, h]
  · simp [Graph.unregister, h]
  · simp [Graph.addMixins, h]

end Ovld
